"""C02 — time-indexed select / insert hit the right samples and interpolate between them.

The time argument is symbolic (per-element tensor, or a symbolic Python scalar), the ring
contents are symbolic.  The oracle is piecewise over the integer k in [0, N-1] and never uses
round/ceil/floor/%: on the grid (|k dt - t| <= tol) the stored sample offset+k steps back,
strictly between grid points the documented interpolation of the two bracketing samples.
"""
from fractions import Fraction

import numpy as np
import torch

from symtorch.run import Check
from symtorch import terms as T
from symtorch.engine import obj

from harness.C01 import make, check_state

PROPERTY = "C02"
F = Fraction


# ---- documented interpolation / extrapolation formulas (transcribed from the docstrings) ----
def interp_oracle(kind, prev, nxt, sa, dt, kw):
    if kind == "previous":
        return prev
    if kind == "next":
        return nxt
    if kind == "nearest":
        # D(dt) if dt - t_s < t_s ... the docstring: next when t_s / dt > 0.5
        return T.ite(T.gt(T.div(sa, dt), F(1, 2)), nxt, prev)
    if kind == "linear":
        return T.add(prev, T.mul(T.div(T.sub(nxt, prev), dt), sa))
    if kind == "expdecay":
        return T.mul(prev, T.exp_(T.div(T.neg(sa), F(kw["time_constant"]))))
    if kind == "expratedecay":
        return T.mul(prev, T.exp_(T.mul(T.neg(sa), F(kw["rate_constant"]))))
    raise AssertionError(kind)


def extrap_oracle(kind, x, sa, prev, nxt, dt, kw):
    if kind == "previous":
        return x, nxt
    if kind == "next":
        return prev, x
    if kind == "neighbors":
        return x, x
    if kind == "nearest":
        c = T.gt(sa, T.div(dt, 2))
        return T.ite(c, prev, x), T.ite(c, x, nxt)
    if kind == "linear_forward":
        slope = T.div(T.sub(x, prev), sa)
        return prev, T.add(prev, T.mul(slope, dt))
    if kind == "linear_backward":
        slope = T.div(T.sub(nxt, x), T.sub(dt, sa))
        return T.sub(nxt, T.mul(slope, dt)), nxt
    if kind == "expdecay":
        tc = F(kw["time_constant"])
        return T.mul(x, T.exp_(T.div(sa, tc))), T.mul(x, T.exp_(T.div(T.sub(sa, dt), tc)))
    if kind == "expratedecay":
        rc = F(kw["rate_constant"])
        return T.mul(x, T.exp_(T.mul(sa, rc))), T.mul(x, T.exp_(T.mul(T.sub(sa, dt), rc)))
    raise AssertionError(kind)


def lib_interp(kind):
    import inferno.functional as f
    return getattr(f, "interp_" + kind)


def lib_extrap(kind):
    import inferno.functional as f
    return getattr(f, "extrap_" + kind)


KW = {"expdecay": {"time_constant": 2.0}, "expratedecay": {"rate_constant": 0.5}}
PAIRS = [("previous", "previous"), ("next", "next"), ("nearest", "nearest"), ("linear_forward", "linear"), ("linear_backward", "linear"),
         ("expdecay", "expdecay"), ("expratedecay", "expratedecay"), ("neighbors", "linear"), ("neighbors", "previous"), ("neighbors", "nearest")]


def thresholds(dt, N, tol):
    """(lo, hi): the rejection threshold as exact rational and as the library's native float expression."""
    exact = F(dt) * (N - 1) + F(tol)
    native = F(dt * (N - 1) + tol)
    return min(exact, native), max(exact, native)


def in_range_cond(t, dt, N, tol):
    lo, hi = thresholds(dt, N, tol)
    return T.band(T.tob(T.ge(t, -F(tol))), T.tob(T.le(t, lo))), T.bor(T.tob(T.lt(t, -F(tol))), T.tob(T.gt(t, hi)))


def classify(t, dt, N, tol):
    """List of (cond, k, on_grid) covering every in-range time."""
    d = F(dt)
    cases = []
    for k in range(N):
        cases.append((T.tob(T.le(T.abs_(T.sub(d * k, t)), F(tol))), k, True))
    for k in range(N - 1):
        cases.append((T.band(T.tob(T.gt(t, d * k + F(tol))), T.tob(T.lt(t, d * (k + 1) - F(tol)))), k, False))
    return cases


def setup(e, cfg, name="D"):
    dt = cfg["dt"]
    N, shape, ptr = cfg["N"], tuple(cfg["shape"]), cfg["ptr"]
    dtype = torch.float64
    from inferno.core.infrastructure import Module, RecordTensor
    m = Module()
    # (a duration a quarter step short of dt * (N - 1): ceil() lands on N - 1 whatever the float rounding of dt * (N - 1) / dt)
    RecordTensor.create(m, "rec", dt, max(0.0, dt * (N - 1) - 0.25 * dt), torch.zeros(shape, dtype=dtype), inclusive=True)
    rec = m.rec
    if rec.recordsz != N:
        raise AssertionError((rec.recordsz, N, dt))
    D = e.sym((N, *shape), dtype, name)
    rec.value = D
    if ptr:
        rec.incr(ptr)
    arr = e.read(D)
    M = [arr[(ptr - j) % N, ...] for j in range(N)]
    return m, rec, M


def h_select_tensor(e, cfg):
    dt, N, tol, off = cfg["dt"], cfg["N"], cfg["tol"], cfg["offset"]
    shape = tuple(cfg["shape"])
    kind = cfg["interp"]
    kw = KW.get(kind, {})
    e.tag(op="select", interp=kind, scalar=False)
    m, rec, M = setup(e, cfg)
    tshape = shape + ((cfg["D"],) if cfg["D"] else ())
    tt = e.sym(tshape, torch.float64, "t", lo=-1 - 2 * dt, hi=dt * N + 2)
    tarr = e.read(tt)
    lo, hi = thresholds(dt, N, tol)
    okall, badany = True, False
    for t in tarr.reshape(-1):
        ok, bad = in_range_cond(t, dt, N, tol)
        okall, badany = T.band(okall, ok), T.bor(badany, bad)
        e.assume(T.bor(ok, bad))   # exclude the rounding-width gap between exact and native threshold
    try:
        res = rec.select(tt, lib_interp(kind), tolerance=tol, offset=off, interp_kwargs=kw or None)
    except ValueError:
        e.oblige("select:rejects-only-out-of-range", badany)
        return
    e.oblige("select:accepts-only-in-range", okall)
    exp = np.empty(tshape, dtype=object)
    for pos in np.ndindex(*tshape):
        t = tarr[pos]
        opos = pos[:len(shape)]
        v = None
        for cond, k, on in reversed(classify(t, dt, N, tol)):
            if on:
                val = M[(off + k) % N][opos]
            else:
                sa = T.sub(F(dt) * (k + 1), t)
                val = interp_oracle(kind, M[(off + k + 1) % N][opos], M[(off + k) % N][opos], sa, F(dt), kw)
            v = val if v is None else T.ite(cond, val, v)
        exp[pos] = v
    e.oblige_eq("select:value", res, exp, split=True)
    check_state(e, rec, M, cfg["ptr"])


def _insert_model(M, N, off, tarr, xarr, dt, tol, kind, kw, shape):
    M2 = [np.array(x, dtype=object, copy=True).reshape(shape) for x in M]
    for pos in (np.ndindex(*shape) if shape else [()]):
        t, x = tarr[pos], xarr[pos]
        cases = classify(t, dt, N, tol)
        for c in range(N):
            v = M[c][pos]
            for cond, k, on in cases:
                if on:
                    if (off + k) % N == c:
                        v = T.ite(cond, x, v)
                else:
                    sa = T.sub(F(dt) * (k + 1), t)
                    pe, ne_ = extrap_oracle(kind, x, sa, M[(off + k + 1) % N][pos], M[(off + k) % N][pos], F(dt), kw)
                    if (off + k + 1) % N == c:
                        v = T.ite(cond, pe, v)
                    if (off + k) % N == c:
                        v = T.ite(cond, ne_, v)
            M2[c][pos] = v
    return M2


def h_insert_tensor(e, cfg):
    dt, N, tol, off = cfg["dt"], cfg["N"], cfg["tol"], cfg["offset"]
    shape = tuple(cfg["shape"])
    kind = cfg["extrap"]
    kw = KW.get(kind, {})
    e.tag(op="insert", extrap=kind, scalar=False, inplace=cfg["inplace"])
    m, rec, M = setup(e, cfg)
    tt = e.sym(shape, torch.float64, "t", lo=-1 - 2 * dt, hi=dt * N + 2)
    xx = e.sym(shape, torch.float64, "x")
    tarr, xarr = e.read(tt), e.read(xx)
    okall, badany = True, False
    for t in tarr.reshape(-1):
        ok, bad = in_range_cond(t, dt, N, tol)
        okall, badany = T.band(okall, ok), T.bor(badany, bad)
        e.assume(T.bor(ok, bad))
    try:
        rec.insert(xx, tt, lib_extrap(kind), tolerance=tol, offset=off, inplace=cfg["inplace"], extrap_kwargs=kw or None)
    except ValueError:
        e.oblige("insert:rejects-only-out-of-range", badany)
        check_state(e, rec, M, cfg["ptr"], label="insert:rejected-state")
        return
    e.oblige("insert:accepts-only-in-range", okall)
    M2 = _insert_model(M, N, off, tarr, xarr, dt, tol, kind, kw, shape)
    check_state(e, rec, M2, cfg["ptr"], label="insert:state", split=True)
    if "interp" in cfg:
        ikind = cfg["interp"]
        back = rec.select(tt, lib_interp(ikind), tolerance=tol, offset=off, interp_kwargs=KW.get(ikind) or None)
        e.oblige_eq("roundtrip:select-after-insert", back, xarr, pair=f"{kind}/{ikind}", split=True)


def h_select_scalar(e, cfg):
    """Scalar-time branch with a universally quantified Python float (SymNum) + agreement with the tensor branch."""
    import inferno.core.infrastructure as infra
    from symtorch.scalar import SymNum, inject, patch_torch
    dt, N, tol, off = cfg["dt"], cfg["N"], cfg["tol"], cfg["offset"]
    shape = tuple(cfg["shape"])
    kind = cfg["interp"]
    kw = KW.get(kind, {})
    e.tag(op="select", interp=kind, scalar=True)
    m, rec, M = setup(e, cfg)
    t = e.scalar("t", "f", lo=-1 - 2 * dt, hi=dt * N + 2)
    ok, bad = in_range_cond(t, dt, N, tol)
    e.assume(T.bor(ok, bad))
    try:
        with inject(infra), patch_torch(e):
            res = rec.select(SymNum(e, t) if not e.concrete else float(t), lib_interp(kind), tolerance=tol, offset=off, interp_kwargs=kw or None)
    except ValueError:
        e.oblige("select-scalar:rejects-only-out-of-range", bad)
        return
    e.oblige("select-scalar:accepts-only-in-range", ok)
    exp = np.empty(shape, dtype=object)
    for pos in (np.ndindex(*shape) if shape else [()]):
        v = None
        for cond, k, on in reversed(classify(t, dt, N, tol)):
            if on:
                val = M[(off + k) % N][pos]
            else:
                sa = T.sub(F(dt) * (k + 1), t)
                val = interp_oracle(kind, M[(off + k + 1) % N][pos], M[(off + k) % N][pos], sa, F(dt), kw)
            v = val if v is None else T.ite(cond, val, v)
        exp[pos] = v
    e.oblige_eq("select-scalar:value", res, exp, split=True)
    # scalar and tensor calls agree element-wise
    tt = e.lift(np.broadcast_to(obj(t, ()), shape).copy(), torch.float64)
    res2 = rec.select(tt, lib_interp(kind), tolerance=tol, offset=off, interp_kwargs=kw or None)
    e.oblige_eq("select:scalar-equals-tensor", res, e.read(res2))


def h_insert_scalar(e, cfg):
    import inferno.core.infrastructure as infra
    from symtorch.scalar import SymNum, inject, patch_torch
    dt, N, tol, off = cfg["dt"], cfg["N"], cfg["tol"], cfg["offset"]
    shape = tuple(cfg["shape"])
    kind = cfg["extrap"]
    kw = KW.get(kind, {})
    e.tag(op="insert", extrap=kind, scalar=True, inplace=cfg["inplace"])
    m, rec, M = setup(e, cfg)
    t = e.scalar("t", "f", lo=-1 - 2 * dt, hi=dt * N + 2)
    xx = e.sym(shape, torch.float64, "x")
    xarr = e.read(xx)
    ok, bad = in_range_cond(t, dt, N, tol)
    e.assume(T.bor(ok, bad))
    try:
        with inject(infra), patch_torch(e):
            rec.insert(xx, SymNum(e, t) if not e.concrete else float(t), lib_extrap(kind), tolerance=tol, offset=off, inplace=cfg["inplace"], extrap_kwargs=kw or None)
    except ValueError:
        e.oblige("insert-scalar:rejects-only-out-of-range", bad)
        return
    e.oblige("insert-scalar:accepts-only-in-range", ok)
    tarr = np.broadcast_to(obj(t, ()), shape)
    M2 = _insert_model(M, N, off, tarr, xarr, dt, tol, kind, kw, shape)
    check_state(e, rec, M2, cfg["ptr"], label="insert-scalar:state", split=True)


def checks(tier):
    th = tier == "thorough"
    dts = [1.0, 0.5, 1.3, 0.1]
    Ns = [1, 2, 3] + ([4] if th else [])
    interps = ["previous", "next", "nearest", "linear", "expdecay", "expratedecay"]
    extraps = ["previous", "next", "neighbors", "nearest", "linear_forward", "linear_backward", "expdecay", "expratedecay"]

    def tols(dt):
        return [0.0, 1e-6, 1e-3, 0.25 * dt] if th else [0.0, 1e-6, 0.25 * dt]

    sel, ins, rt, ssel, sins = [], [], [], [], []
    for dt in dts:
        for N in Ns:
            for ptr in range(N):
                offs = [0, 1, 2] if (th or ptr == 0) else [1]
                for tol in tols(dt):
                    for off in offs:
                        base = dict(dt=dt, N=N, ptr=ptr, tol=tol, offset=off, shape=(2,))
                        for ik in interps:
                            if not th and ik in ("expratedecay",) and dt != 1.0:
                                continue
                            sel.append(dict(base, interp=ik, D=None))
                            if th or (ptr == 0 and off == 1):
                                sel.append(dict(base, interp=ik, D=2))
                            if th or ptr == N - 1:
                                ssel.append(dict(base, interp=ik, shape=(2,)))
                        for ek in extraps:
                            if not th and ek in ("expratedecay",) and dt != 1.0:
                                continue
                            for inplace in ((False, True) if (th or off == 0) else (False,)):
                                ins.append(dict(base, extrap=ek, inplace=inplace))
                                if th or ptr == N - 1:
                                    sins.append(dict(base, extrap=ek, inplace=inplace))
                        if th or (off in (0, 1) and ptr in (0, N - 1)):
                            for ek, ik in PAIRS:
                                rt.append(dict(base, extrap=ek, interp=ik, inplace=bool(ptr % 2)))
    o = {"div_policy": "xr", "query_timeout_ms": 120000}
    return [
        Check("select_tensor", h_select_tensor, sel, opts=o, timeout_s=900),
        Check("insert_tensor", h_insert_tensor, ins, opts=o, timeout_s=900),
        Check("roundtrip", h_insert_tensor, rt, opts=o, timeout_s=900),
        Check("select_scalar", h_select_scalar, ssel, opts=o, timeout_s=900),
        Check("insert_scalar", h_insert_scalar, sins, opts=o, timeout_s=900),
    ]


BOUNDS = {
    "quick": {"dt": [1.0, 0.5, 1.3, 0.1], "N": [1, 2, 3], "pointer": "every position", "offset": [0, 1, 2], "tolerance": ["0", "1e-6", "0.25*dt"],
              "time": "symbolic per-element float64 tensor (rank = obs rank and +1) and symbolic Python scalar, unconstrained (rejection path explored)",
              "interpolations": 6, "extrapolations": 8, "obs_shape": "(2,)"},
    "thorough": {"dt": [1.0, 0.5, 1.3, 0.1], "N": [1, 2, 3, 4], "pointer": "every position", "offset": [0, 1, 2], "tolerance": ["0", "1e-6", "1e-3", "0.25*dt"],
                 "time": "as quick", "interpolations": 6, "extrapolations": 8, "obs_shape": "(2,)"},
}
OUTSIDE = ["float32 snapping of time/dt for float32 time tensors (time and storage are float64 here)", "tolerances >= dt/2",
           "times inside the rounding-width gap between the exact and the natively computed upper range limit",
           "exp is an uninterpreted function: identical on both sides, identities exp(a)exp(b)=exp(a+b) instantiated for occurring terms"]
