"""C08 — STDP-family weight changes equal the documented sum over spike pairs.

Real Serial layer (connection + synapse) with a scripted post-synaptic population, the real
trainer (monitors, reducers, forward hooks) and the real Updater run for T steps on SYMBOLIC
pre/post spike histories (indicator encoding) and symbolic reward magnitudes.  The accumulated
potentiation/depression parts and the weight after update() are compared with the documented
closed-form pair sums (all pairs / most recent partner), with presynaptic spike times shifted
by the per-synapse delay.
"""
import math
from fractions import Fraction as F

import numpy as np
import torch

from symtorch.run import Check
from symtorch import terms as T
from harness.common import K, scripted_neuron_class, num, zeros, sum_

PROPERTY = "C08"

HP = dict(tc_post=20.0, tc_pre=15.0)
SIGNS = {"hebbian": (1.0, -0.5), "antihebbian": (-1.0, 0.5), "potentiative": (1.0, 0.5), "depressive": (-1.0, -0.5)}


def build_cell(e, cfg):
    import inferno.neural as neural
    kind, B, dt = cfg["cell"], cfg["B"], cfg["dt"]
    delay = cfg.get("maxdelay")
    syn = neural.DeltaCurrent.partialconstructor(1.0)
    if kind == "dense":
        conn = neural.LinearDense(tuple(cfg.get("in_shape", (2,))), tuple(cfg.get("out_shape", (2,))), dt, synapse=syn, delay=delay, batch_size=B)
    elif kind == "direct":
        conn = neural.LinearDirect((2,), dt, synapse=syn, delay=delay, batch_size=B)
    elif kind == "conv":
        H, W, kh, kw, Fn, Cn = (tuple(cfg["geom"]) + (1,))[:6]
        conn = neural.Conv2D(H, W, Cn, Fn, dt, (kh, kw), synapse=syn, delay=delay, batch_size=B)
    else:
        conn = neural.LinearLateral((2,), dt, synapse=syn, delay=delay, batch_size=B)
    W0 = e.sym(tuple(conn.weight.shape), torch.float32, "W0", lo=-2, hi=2)
    conn.weight = W0
    w0 = e.read(conn.weight).copy()
    if delay is not None:
        steps = cfg["delaysteps"]
        d = torch.tensor(steps, dtype=torch.float32) * dt
        if kind == "direct":
            conn.delay = torch.stack([d[0, 0], d[1, 1]])
        else:
            conn.delay = d.reshape(conn.delay.shape)
    conn.updater = conn.defaultupdater(exclude_bias=True, exclude_delay=True) if delay is not None else conn.defaultupdater()
    neuron = scripted_neuron_class()(tuple(conn.outshape), dt, B)
    layer = neural.Serial(conn, neuron)
    return layer, conn, neuron, w0


def geometry(cfg, conn):
    """weight index -> the synapses it is shared by: list of (post-neuron index, input index, delay in steps)."""
    kind = cfg["cell"]
    s = cfg.get("delaysteps") if cfg.get("maxdelay") is not None else None
    if kind == "direct":
        return {(i,): [((i,), (i,), (s[i][i] if s else 0))] for i in range(2)}
    if kind == "dense" and (cfg.get("in_shape") or cfg.get("out_shape")):
        # non-square, multi-dimensional populations: weight (prod(out), prod(in)), row-major flattening of both sides
        ins, outs = list(np.ndindex(*cfg.get("in_shape", (2,)))), list(np.ndindex(*cfg.get("out_shape", (2,))))
        return {(o, i): [(outs[o], ins[i], (0 if s is None else s[o][i]))] for o in range(len(outs)) for i in range(len(ins))}
    if kind in ("dense", "lateral"):
        return {(o, i): [((o,), (i,), (0 if (s is None or (kind == "lateral" and o == i)) else s[o][i]))] for o in range(2) for i in range(2)}
    H, W, kh, kw, Fn, Cn = (tuple(cfg["geom"]) + (1,))[:6]
    oh, ow = H - kh + 1, W - kw + 1           # stride 1, no padding, no dilation
    g = {}
    for f in range(Fn):
        for c in range(Cn):
            for i in range(kh):
                for j in range(kw):
                    d = s[f][c][i][j] if s else 0
                    g[(f, c, i, j)] = [((f, oy, ox), (c, oy + i, ox + j), d) for oy in range(oh) for ox in range(ow)]
    return g


def trace_closed(events, decay, amp, mode):
    """Trace value after the last event list entry (events: numeric 0/1 elements, oldest first)."""
    t = len(events) - 1
    v = F(0)
    for s, x in enumerate(events):
        term = T.mul(amp * decay ** (t - s), x)
        if mode == "nearest":
            for r in range(s + 1, t + 1):
                term = T.mul(term, T.sub(1, events[r]))
        v = T.add(v, term)
    return v


def reduce_parts(parts, red):
    """parts: list of element values (rows concatenated along the batch dimension)."""
    if not parts:
        return None
    v = sum_(parts)
    return v if red == "sum" else T.div(v, len(parts))


def route(lr_post_pos, lr_pre_pos, dpost, dpre):
    """(pos, neg) per the documented sign table; None when a side has no term."""
    pos, neg = [], []
    (pos if lr_post_pos else neg).append(dpost)
    (pos if lr_pre_pos else neg).append(dpre)
    f = lambda l: None if not l else (l[0] if len(l) == 1 else T.add(l[0], l[1]))
    return f(pos), f(neg)


def h_stdp(e, cfg):
    import inferno.learn as learn
    trainer_kind, mode, dt, B, Tn = cfg["trainer"], cfg["trace"], cfg["dt"], cfg["B"], cfg["T"]
    lr_post, lr_pre = SIGNS[cfg["signs"]]
    red = cfg["reduction"]
    redfn = {"sum": torch.sum, "mean": torch.mean}[red]
    layer, conn, neuron, w0 = build_cell(e, cfg)
    delayed_flag = cfg.get("delayed", False)
    e.tag(trainer=trainer_kind, cell=cfg["cell"], signs=cfg["signs"], trace=mode, delayed=delayed_flag, has_delay=cfg.get("maxdelay") is not None)
    c_post, c_pre = SIGNS[cfg["ctor_signs"]] if cfg.get("ctor_signs") else (lr_post, lr_pre)     # constructor defaults (may be overridden per cell)
    common = dict(lr_post=c_post, lr_pre=c_pre, tc_post=HP["tc_post"], tc_pre=HP["tc_pre"], trace_mode=mode, batch_reduction=redfn)
    if trainer_kind == "stdp":
        tr = learn.STDP(delayed=delayed_flag, **common)
    elif trainer_kind == "mstdp":
        tr = learn.MSTDP(delayed=delayed_flag, **common)
    elif trainer_kind == "mstdpet":
        tr = learn.MSTDPET(tc_eligibility=10.0, **common)
    else:
        tr = learn.TripletSTDP(lr_post_pair=c_post, lr_post_triplet=0.3 * c_post / lr_post, lr_pre_pair=c_pre, lr_pre_triplet=0.2 * c_pre / lr_pre, tc_post_fast=HP["tc_post"], tc_post_slow=40.0,
                               tc_pre_fast=HP["tc_pre"], tc_pre_slow=30.0, delayed=delayed_flag, trace_mode=mode, batch_reduction=redfn)
    if cfg.get("ctor_signs"):
        if trainer_kind == "triplet":
            tr.register_cell("c", layer.cell, lr_post_pair=lr_post, lr_pre_pair=lr_pre, lr_post_triplet=0.3, lr_pre_triplet=0.2)
        else:
            tr.register_cell("c", layer.cell, lr_post=lr_post, lr_pre=lr_pre)
    else:
        tr.register_cell("c", layer.cell)
    if cfg.get("bounded"):
        import inferno.functional as fnl
        conn.updater.weight.upperbound(fnl.bound_upper_multiplicative, 3.0)
        conn.updater.weight.lowerbound(fnl.bound_lower_multiplicative, -3.0)
    per_step = cfg.get("per_step", False)
    a_pre, a_post = K(math.exp(-dt / HP["tc_pre"])), K(math.exp(-dt / HP["tc_post"]))
    A_pre, A_post = K(abs(lr_post)), K(abs(lr_pre))       # amplitude of the PRE trace is |lr_post| and vice versa
    kind = cfg["cell"]
    geo = geometry(cfg, conn)
    pairs = list(geo)
    inshape = tuple(conn.inshape)
    pre_hist, post_hist = [], []
    pos_acc = {p: [] for p in pairs}
    neg_acc = {p: [] for p in pairs}
    z_post = {(b, p): F(0) for b in range(B) for p in pairs}
    z_pre = {(b, p): F(0) for b in range(B) for p in pairs}
    for t in range(Tn):
        x = e.sym((B, *inshape), torch.bool, f"pre{t}", ind=True)
        y = e.sym((B, *tuple(conn.outshape)), torch.bool, f"post{t}", ind=True)
        neuron.script.append(y)
        layer(x.float() if kind == "conv" else x)
        pre_hist.append(e.read(x)); post_hist.append(e.read(y))
        # reward
        sig = None
        if trainer_kind in ("mstdp", "mstdpet"):
            if cfg["signal"] == "scalar+":
                sig, scale = 0.75, 2.0
                tr(sig, scale)
            elif cfg["signal"] == "scalar-":
                sig, scale = -0.75, 1.0
                tr(sig, scale)
            else:
                st = e.sym((B,), torch.float32, f"sig{t}", lo=-2, hi=2)
                scale = 0.5
                tr(st, scale)
                sig = e.read(st)
        else:
            tr()
        # ---- oracle contributions of this step
        cpost, cpre = {}, {}
        step_parts = {}
        for b in range(B):
            for p in pairs:
                tot_post, tot_pre = F(0), F(0)
                for (po, pi, d) in geo[p]:
                    arr = [(num(pre_hist[s - d][(b, *pi)]) if s - d >= 0 else F(0)) for s in range(t + 1)]
                    pst = [num(post_hist[s][(b, *po)]) for s in range(t + 1)]
                    if trainer_kind == "triplet":
                        xa = trace_closed(arr, K(math.exp(-dt / HP["tc_pre"])), K(abs(lr_post)), mode)
                        ya = trace_closed(pst, K(math.exp(-dt / HP["tc_post"])), K(abs(lr_pre)), mode)
                        yb = trace_closed(pst[:-1], K(math.exp(-dt / 40.0)), K(abs(0.3 / lr_post)), mode) if t > 0 else F(0)
                        xb = trace_closed(arr[:-1], K(math.exp(-dt / 30.0)), K(abs(0.2 / lr_pre)), mode) if t > 0 else F(0)
                        tot_post = T.add(tot_post, T.mul(T.mul(pst[-1], T.add(1, yb)), xa))
                        tot_pre = T.add(tot_pre, T.mul(T.mul(arr[-1], T.add(1, xb)), ya))
                    else:
                        xpre = trace_closed(arr, a_pre, A_pre, mode)
                        xpost = trace_closed(pst, a_post, A_post, mode)
                        tot_post = T.add(tot_post, T.mul(pst[-1], xpre))
                        tot_pre = T.add(tot_pre, T.mul(arr[-1], xpost))
                cpost[b, p], cpre[b, p] = tot_post, tot_pre
        if trainer_kind == "mstdpet":
            az, sz = K(math.exp(-dt / 10.0)), K(1 / 10.0)
            for k in cpost:
                z_post[k] = T.add(T.mul(z_post[k], az), T.mul(sz, cpost[k])) if t > 0 else T.mul(sz, cpost[k])
                z_pre[k] = T.add(T.mul(z_pre[k], az), T.mul(sz, cpre[k])) if t > 0 else T.mul(sz, cpre[k])
            cpost, cpre = dict(z_post), dict(z_pre)
        for p in pairs:
            if trainer_kind in ("stdp", "triplet"):
                dpost = reduce_parts([cpost[b, p] for b in range(B)], red)
                dpre = reduce_parts([cpre[b, p] for b in range(B)], red)
                ps, ng = route(lr_post >= 0, lr_pre >= 0, dpost, dpre)
            elif not isinstance(sig, np.ndarray):
                g = K(abs(sig * scale))
                dpost = T.mul(reduce_parts([cpost[b, p] for b in range(B)], red), g)
                dpre = T.mul(reduce_parts([cpre[b, p] for b in range(B)], red), g)
                ps, ng = route(lr_post * sig >= 0, lr_pre * sig >= 0, dpost, dpre)
            else:
                pp, nn = [], []
                # rows are concatenated post-terms first, then pre-terms
                for which, lr in (("post", lr_post), ("pre", lr_pre)):
                    for b in range(B):
                        sb = sig[b]
                        mag = T.abs_(T.mul(sb, K(scale)))
                        val = T.mul(cpost[b, p] if which == "post" else cpre[b, p], mag)
                        regular = e.branch(T.ge(sb, 0))
                        goes_pos = (lr >= 0) == regular
                        (pp if goes_pos else nn).append(val)
                ps, ng = reduce_parts(pp, red), reduce_parts(nn, red)
            if ps is not None:
                pos_acc[p].append(ps)
            if ng is not None:
                neg_acc[p].append(ng)
            step_parts[p] = (ps, ng)
        if per_step:
            acc = conn.updater.weight
            gp, gn = acc.pos, acc.neg
            for nm, g in (("potentiation", gp), ("depression", gn)):
                if g is not None:
                    for v in e.read(g).reshape(-1):
                        e.oblige("split:part-nonnegative", T.ge(v, 0), part=nm, step=t)
            wsh = tuple(conn.weight.shape)
            zero = zeros(wsh)
            ga = e.read(gp) if gp is not None else zero
            gb = e.read(gn) if gn is not None else zero
            for idx in np.ndindex(*wsh):
                if cfg.get("bounded"):      # accumulators are not cleared between steps: compare the running sums
                    rule = T.sub(sum_(pos_acc[idx]), sum_(neg_acc[idx]))
                else:
                    ps, ng = step_parts[idx]
                    rule = T.sub(ps if ps is not None else F(0), ng if ng is not None else F(0))
                e.oblige("split:net-equals-signed-rule", T.same(T.sub(ga[idx], gb[idx]), rule), step=t, elem=list(idx))
            if not cfg.get("bounded"):
                acc.clear()
                for p in pairs:
                    pos_acc[p], neg_acc[p] = [], []
    # ---- compare the accumulators
    acc = conn.updater.weight
    gp, gn = acc.pos, acc.neg
    wshape = tuple(conn.weight.shape)

    def as_arr(d):
        a = np.empty(wshape, dtype=object)
        for p, parts in d.items():
            a[p] = sum_(parts)
        return a
    any_pos, any_neg = any(pos_acc.values()), any(neg_acc.values())
    e.oblige("accumulated:pos-present", (gp is not None) == any_pos)
    e.oblige("accumulated:neg-present", (gn is not None) == any_neg)
    if gp is not None and any_pos:
        e.oblige_eq("accumulated:potentiation", gp, as_arr(pos_acc), split=True)
    if gn is not None and any_neg:
        e.oblige_eq("accumulated:depression", gn, as_arr(neg_acc), split=True)
    conn.update()
    exp = np.empty(wshape, dtype=object)
    for idx in np.ndindex(*wshape):
        v = w0[idx]
        if cfg.get("bounded"):
            if any_pos:
                v = T.add(v, T.mul(T.sub(K(3.0), w0[idx]), sum_(pos_acc[idx])))
            if any_neg:
                v = T.sub(v, T.mul(T.sub(w0[idx], K(-3.0)), sum_(neg_acc[idx])))
        else:
            if any_pos:
                v = T.add(v, sum_(pos_acc[idx]))
            if any_neg:
                v = T.sub(v, sum_(neg_acc[idx]))
        if kind == "lateral" and idx[0] == idx[1]:
            v = F(0)
        exp[idx] = v
    e.oblige_eq("weight-after-update", conn.weight, exp, split=True)


def checks(tier):
    th = tier == "thorough"
    cfgs = []
    Tn = 4       # (T = 5: z3 answers unknown on the nearest-mode triplet obligations; the thorough tier widens the grid, not the horizon)
    for trainer in ("stdp", "triplet", "mstdp", "mstdpet"):
        for mode in ("cumulative", "nearest"):
            for signs in SIGNS:
                for cell in ("dense", "direct", "lateral"):
                    if not th and cell != "dense" and signs not in ("hebbian", "depressive"):
                        continue
                    for dly in ("none", "delayed", "frozen"):
                        if trainer == "mstdpet" and dly == "delayed":
                            continue
                        if not th and dly != "none" and (cell == "lateral" or signs != "hebbian"):
                            continue
                        signals = ["-"] if trainer in ("stdp", "triplet") else (["scalar+", "scalar-", "tensor"])
                        for signal in signals:
                            brs = (((1, "sum"), (2, "mean")) if cell != "dense" else ((1, "sum"), (2, "sum"), (2, "mean"))) if th else ((2, "mean") if trainer in ("stdp", "triplet") else (2, "sum"),)
                            if not th and signal == "tensor" and cell == "dense" and dly == "none":
                                brs = brs + ((1, "sum"),)          # a batch of one with a per-sample signal of shape [1]
                            for B, red in brs:
                                for dt in ((1.0, 1.3) if (th and cell == "dense" and signs in ("hebbian", "depressive")) else (1.3,)):
                                    c = dict(trainer=trainer, trace=mode, signs=signs, cell=cell, B=B, reduction=red, dt=dt, T=(Tn if signal != "tensor" or th else 3), signal=signal)
                                    if dly != "none":
                                        c.update(maxdelay=2 * dt, delaysteps=[[0, 1], [2, 1]], delayed=(dly == "delayed"))
                                    cfgs.append(c)
    # non-square, multi-dimensional dense cell ((2, 2) -> (3,)): flattening order and orientation of the weight matrix
    for trainer in ("stdp", "triplet", "mstdp", "mstdpet"):
        for dly in ("none", "delayed"):
            if trainer == "mstdpet" and dly == "delayed":
                continue
            if not th and dly == "delayed" and trainer != "stdp":
                continue
            c = dict(trainer=trainer, trace="cumulative", signs="hebbian", cell="dense", in_shape=(2, 2), out_shape=(3,), B=(2 if th else 1), reduction="sum", dt=1.3, T=3,
                     signal=("-" if trainer in ("stdp", "triplet") else "scalar+"))
            if dly != "none":
                c.update(maxdelay=2 * 1.3, delaysteps=[[(o + 2 * i) % 3 for i in range(4)] for o in range(3)], delayed=True)
            cfgs.append(c)
    # convolutional cells: a weight is shared by every output location (sum over the receptive fields)
    conv = []
    for trainer in ("stdp", "triplet", "mstdp", "mstdpet"):
        for mode in (("cumulative", "nearest") if (th or trainer == "stdp") else ("cumulative",)):
            for signs in (tuple(SIGNS) if th else (("hebbian", "depressive") if trainer == "stdp" else ("hebbian",))):
                # (H, W, kh, kw, filters[, channels]); the two-channel geometry tells the (c kh kw) layout of the unfolded patches from its permutations
                for geom in (((3, 3, 2, 2, 1), (2, 3, 1, 2, 2), (3, 2, 2, 1, 2), (2, 3, 1, 2, 1, 2), (2, 2, 2, 1, 1, 2)) if th else ((3, 3, 2, 2, 1), (2, 3, 1, 2, 2), (2, 3, 1, 2, 1, 2))):
                    for dly in ("none", "delayed", "frozen"):
                        if trainer == "mstdpet" and dly == "delayed":
                            continue
                        if not th and dly == "frozen" and trainer != "stdp":
                            continue
                        for B, red in (((1, "sum"), (2, "mean")) if th else ((2, "mean"),)):
                            c = dict(trainer=trainer, trace=mode, signs=signs, cell="conv", geom=geom, B=B, reduction=red, dt=1.3, T=(4 if th else 3),
                                     signal=("-" if trainer in ("stdp", "triplet") else "scalar+"))
                            if dly != "none":
                                H, W, kh, kw, Fn, Cn = (tuple(geom) + (1,))[:6]
                                steps = [[[[(f + c + 2 * i + j) % 3 for j in range(kw)] for i in range(kh)] for c in range(Cn)] for f in range(Fn)]
                                c.update(maxdelay=2 * 1.3, delaysteps=steps, delayed=(dly == "delayed"))
                            conv.append(c)
    return [Check("conv_pair_sums", h_stdp, conv, opts={"max_paths": 5000, "query_timeout_ms": 120000}, timeout_s=1800),
            Check("pair_sums", h_stdp, cfgs, opts={"max_paths": 5000, "query_timeout_ms": 120000}, timeout_s=1800)]


BOUNDS = {
    "quick": {"trainers": ["STDP", "TripletSTDP", "MSTDP", "MSTDPET"], "trace modes": 2, "sign modes": 4, "cells": ["dense 2x2", "dense (2,2)->(3,) (non-square, multi-dimensional)", "direct 2", "lateral 2", "Conv2D 3x3 input / 2x2 kernel / 1 filter, 2x3 input / 1x2 kernel / 2 filters, and 2 channels x 2x3 input / 1x2 kernel (T=3)"], "T": 4, "batch": 2,
              "delays": "none / per-synapse grid delays {0,1,2} steps with delayed=True / delayed=False", "signal": "scalar +/-, per-sample symbolic tensor (forked on sign)", "dt": 1.3},
    "thorough": {"T": 4, "batch": [1, 2], "reductions": ["sum", "mean"], "dt": "1.3 (1.0 as well for dense cells)", "all cells x all sign modes x all delay modes": True},
}
OUTSIDE = ["conv cells with stride/padding/dilation other than the defaults or more than two input channels", "off-grid delays", "time constants other than those used", "post spikes are scripted (any history), not produced by neuron dynamics"]
