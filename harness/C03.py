"""C03 — neuron step contract: threshold, reset, absolute refractory period, spike flag.

One step from an ARBITRARY symbolic state (voltage, remaining refractory time within the
invariant 0 <= refrac <= refrac_t, adaptation state) with an arbitrary input current, for all
eight neuron classes; the oracle is the documented update equation.  The invariant is checked
inductive.  A neuron that spikes is then followed for max(1, ceil(refrac_t/dt)) - 1 further
steps with arbitrary inputs: it must not spike and (with locking) not change voltage.
"""
import math
from fractions import Fraction as F

import numpy as np
import torch

from symtorch.run import Check
from symtorch import terms as T
from symtorch.engine import round_to_dtype, obj

PROPERTY = "C03"


def K(x):
    """A Python-float hyper-parameter as the float32 number a float32 tensor computation sees."""
    return round_to_dtype(F(float(x)), torch.float32)


HP = {
    "LIF": [dict(rest_v=-60.0, reset_v=-65.0, thresh_v=-50.0, time_constant=20.0, resistance=1.0),
            dict(rest_v=0.0, reset_v=-1.0, thresh_v=1.0, time_constant=5.0, resistance=2.5)],
    "GLIF1": [dict(rest_v=-60.0, reset_v=-65.0, thresh_v=-50.0, time_constant=20.0, resistance=1.0)],
    "ALIF": [dict(rest_v=-60.0, reset_v=-65.0, thresh_eq_v=-50.0, tc_membrane=20.0, tc_adaptation=(10.0, 30.0), spike_increment=(0.5, 0.25), resistance=1.0),
             dict(rest_v=0.0, reset_v=-1.0, thresh_eq_v=1.0, tc_membrane=5.0, tc_adaptation=7.0, spike_increment=0.3, resistance=2.0)],
    "GLIF2": [dict(rest_v=-60.0, reset_v_add=2.0, reset_v_mul=0.5, thresh_eq_v=-50.0, tc_membrane=20.0, rc_adaptation=(0.25, 0.5), spike_increment=(0.5, 0.25), resistance=1.0)],
    "QIF": [dict(rest_v=-60.0, crit_v=-50.0, affinity=0.04, reset_v=-65.0, thresh_v=30.0, time_constant=1.0, resistance=1.0),
            dict(rest_v=0.0, crit_v=1.0, affinity=1.0, reset_v=-0.5, thresh_v=2.0, time_constant=4.0, resistance=0.5)],
    "Izhikevich": [dict(rest_v=-60.0, crit_v=-50.0, affinity=0.04, reset_v=-65.0, thresh_v=30.0, tc_membrane=1.0, tc_adaptation=(50.0, 20.0), voltage_coupling=(0.2, -0.1),
                        spike_increment=(8.0, 1.0), resistance=1.0)],
    "EIF": [dict(rest_v=-60.0, rheobase_v=-50.0, sharpness=2.0, reset_v=-65.0, thresh_v=-40.0, time_constant=20.0, resistance=1.0)],
    "AdEx": [dict(rest_v=-60.0, rheobase_v=-50.0, sharpness=2.0, reset_v=-65.0, thresh_v=-40.0, tc_membrane=20.0, tc_adaptation=30.0, voltage_coupling=0.1,
                  spike_increment=1.5, resistance=1.0)],
}
ADAPT_THRESH = {"ALIF", "GLIF2"}
ADAPT_CURR = {"Izhikevich", "AdEx"}


def build(cls, shape, dt, refrac_t, hp, B):
    import inferno.neural as neural
    return getattr(neural, cls)(shape, dt, refrac_t=refrac_t, batch_size=B, **hp)


def integrate(cls, V, I, dt, hp):
    """Documented voltage update (before thresholding)."""
    if cls in ("LIF", "GLIF1", "ALIF", "GLIF2"):
        tc = hp.get("time_constant", hp.get("tc_membrane"))
        decay = K(math.exp(-dt / tc))
        rest, ext = K(hp["rest_v"]), T.mul(K(hp["resistance"]), I)
        return T.add(T.add(rest, T.mul(T.sub(T.sub(V, rest), ext), decay)), ext)
    if cls in ("QIF", "Izhikevich"):
        tc = hp.get("time_constant", hp.get("tc_membrane"))
        dyn = T.mul(T.mul(K(hp["affinity"]), T.sub(V, K(hp["rest_v"]))), T.sub(V, K(hp["crit_v"])))
        return T.add(V, T.mul(K(dt / tc), T.add(dyn, T.mul(K(hp["resistance"]), I))))
    if cls in ("EIF", "AdEx"):
        tc = hp.get("time_constant", hp.get("tc_membrane"))
        ex = T.mul(K(hp["sharpness"]), T.exp_(T.div(T.sub(V, K(hp["rheobase_v"])), K(hp["sharpness"]))))
        inner = T.add(T.add(T.neg(T.sub(V, K(hp["rest_v"]))), ex), T.mul(K(hp["resistance"]), I))
        return T.add(V, T.mul(K(dt / tc), inner))
    raise AssertionError(cls)


def plant(e, n, cls, shape, B, refrac_t, tag=""):
    bs = (B, *shape)
    V = e.sym(bs, torch.float32, "V" + tag, lo=-200, hi=200)
    R = e.sym(bs, torch.float32, "R" + tag, lo=0, hi=K(refrac_t))
    n.voltage = V
    n.refrac = R
    A = None
    if cls in ADAPT_THRESH:
        A = e.sym(tuple(n.threshold_adaptation.shape), torch.float32, "A" + tag, lo=-5, hi=5)
        n.threshold_adaptation = A
    elif cls in ADAPT_CURR:
        A = e.sym(tuple(n.current_adaptation.shape), torch.float32, "A" + tag, lo=-5, hi=5)
        n.current_adaptation = A
    return V, R, A


def oracle_step(e, n, cls, hp, dt, refrac_t, V, R, A, I, lock, adapt_on, B, shape):
    """Returns expected (spikes, V', R', A') element arrays."""
    bs = (B, *shape)
    s_, v_, r_ = np.empty(bs, dtype=object), np.empty(bs, dtype=object), np.empty(bs, dtype=object)
    kdt, krt = K(dt), K(refrac_t)
    for pos in np.ndindex(*bs):
        npos = pos[1:]
        r1 = T.maximum(T.sub(R[pos], kdt), 0)
        out = T.eq(r1, 0)
        inp = I[pos]
        if cls in ADAPT_CURR:
            for k in range(A.shape[-1]):
                inp = T.sub(inp, A[npos + (k,)])
        inp = T.mul(inp, T.ite(out, F(1), F(0)))
        vint = integrate(cls, V[pos], inp, dt, hp)
        v1 = vint if not lock else T.ite(out, vint, V[pos])
        if cls in ADAPT_THRESH:
            thr = K(hp["thresh_eq_v"])
            for k in range(A.shape[-1]):
                thr = T.add(thr, A[npos + (k,)])
        else:
            thr = K(hp["thresh_v"])
        s = T.band(T.tob(out), T.tob(T.ge(v1, thr)))
        if cls == "GLIF2":
            rst = T.sub(T.add(K(hp["rest_v"]), T.mul(K(hp["reset_v_mul"]), T.sub(v1, K(hp["rest_v"])))), K(hp["reset_v_add"]))
        else:
            rst = K(hp["reset_v"])
        s_[pos], v_[pos], r_[pos] = s, T.ite(s, rst, v1), T.ite(s, krt, r1)
    A2 = None
    if A is not None and adapt_on:
        A2 = np.empty(A.shape, dtype=object)
        nK = A.shape[-1]
        if cls in ADAPT_THRESH:
            if cls == "ALIF":
                dec = n.tc_adaptation
                decays = [F(float(x)) for x in torch.exp(-dt / dec).tolist()]
            else:
                decays = [F(float(x)) for x in torch.exp(-dt / (1 / n.rc_adaptation)).tolist()]
            incs = [F(float(x)) for x in n.adapt_increment.tolist()]
        else:
            tcs = [F(float(x)) for x in (dt / n.tc_adaptation).tolist()]
            vcs = [F(float(x)) for x in n.adapt_vc_coupling.tolist()]
            incs = [F(float(x)) for x in n.adapt_increment.tolist()]
        for npos in (np.ndindex(*shape) if shape else [()]):
            for k in range(nK):
                acc = 0
                for b in range(B):
                    pos = (b,) + npos
                    a = A[npos + (k,)]
                    if cls in ADAPT_THRESH:
                        upd = T.mul(a, decays[k])
                    else:
                        upd = T.add(a, T.mul(tcs[k], T.sub(T.mul(vcs[k], T.sub(v_[pos], K(hp["rest_v"]))), a)))
                    val = upd if not lock else T.ite(T.gt(r_[pos], 0), a, upd)
                    val = T.add(val, T.mul(incs[k], T.ite(s_[pos], F(1), F(0))))
                    acc = T.add(acc, val)
                A2[npos + (k,)] = T.div(acc, B)
    elif A is not None:
        A2 = A
    return s_, v_, r_, A2


def h_step(e, cfg):
    cls, dt, refrac_t, shape, B = cfg["cls"], cfg["dt"], cfg["refrac_t"], tuple(cfg["shape"]), cfg["B"]
    lock, adapt = cfg["lock"], cfg["adapt"]
    hp = HP[cls][cfg["hp"]]
    n = build(cls, shape, dt, refrac_t, hp, B)
    if adapt == "eval":
        n.eval()
        adapt_arg, adapt_on = None, False
    elif adapt == "train":
        n.train()
        adapt_arg, adapt_on = None, True
    else:
        adapt_arg, adapt_on = (adapt == "on"), (adapt == "on")
    e.tag(cls=cls, refrac_zero=(refrac_t == 0), lock=lock)
    Vt, Rt, At = plant(e, n, cls, shape, B, refrac_t)
    V, R = e.read(Vt), e.read(Rt)
    A = e.read(At) if At is not None else None
    It = e.sym((B, *shape), torch.float32, "I", lo=-500, hi=500)
    I = e.read(It)
    out = n(It, refrac_lock=lock, adapt=adapt_arg) if cls in ADAPT_THRESH | ADAPT_CURR else n(It, refrac_lock=lock)
    s_, v_, r_, A2 = oracle_step(e, n, cls, hp, dt, refrac_t, V, R, A, I, lock, adapt_on, B, shape)
    e.oblige("step:output-dtype-shape", out.dtype == torch.bool and tuple(out.shape) == (B, *shape))
    e.oblige_eq("step:spikes", out, s_, split=True)
    e.oblige_eq("step:voltage", n.voltage, v_, split=True)
    e.oblige_eq("step:refrac", n.refrac, r_, split=True)
    e.oblige_eq("step:spike-attribute", n.spike, e.read(out), split=True)
    rr = e.read(n.refrac)
    inv = True
    for x in rr.reshape(-1):
        inv = T.band(inv, T.band(T.tob(T.ge(x, 0)), T.tob(T.le(x, K(refrac_t)))))
    e.oblige("step:refrac-invariant", inv)
    if A2 is not None:
        cur = n.threshold_adaptation if cls in ADAPT_THRESH else n.current_adaptation
        e.oblige_eq("step:adaptation", cur, A2, split=True)


def h_window(e, cfg):
    """A neuron that spikes at step t does not spike (and, locked, keeps its voltage) before t + max(1, ceil(refrac_t/dt))."""
    cls, dt, refrac_t, shape, B = cfg["cls"], cfg["dt"], cfg["refrac_t"], tuple(cfg["shape"]), cfg["B"]
    lock = cfg["lock"]
    hp = HP[cls][0]
    n = build(cls, shape, dt, refrac_t, hp, B)
    n.eval()
    e.tag(cls=cls, refrac_zero=(refrac_t == 0), lock=lock)
    plant(e, n, cls, shape, B, refrac_t)
    k = max(1, math.ceil(refrac_t / dt))
    imax = cfg.get("imax", 500)
    I0 = e.sym((B, *shape), torch.float32, "I0", lo=-imax, hi=imax)
    s0 = e.read(n(I0, refrac_lock=lock))
    v0 = e.read(n.voltage)
    anys = False
    for v in s0.reshape(-1):
        anys = T.bor(anys, T.tob(v))
    e.witness("window:a-neuron-spikes-at-step-0", anys)      # everything below is conditional on that spike
    hp_reset = None if cls == "GLIF2" else K(hp["reset_v"])
    if hp_reset is not None:
        for pos in np.ndindex(*s0.shape):
            e.oblige("window:reset-in-same-step", T.bor(T.bnot(T.tob(s0[pos])), T.tob(T.eq(v0[pos], hp_reset))), elem=list(pos))
    for j in range(1, k):
        Ij = e.sym((B, *shape), torch.float32, f"I{j}", lo=-500, hi=500)
        sj = e.read(n(Ij, refrac_lock=lock))
        vj = e.read(n.voltage)
        for pos in np.ndindex(*s0.shape):
            e.oblige("window:no-spike-while-refractory", T.bor(T.bnot(T.tob(s0[pos])), T.bnot(T.tob(sj[pos]))), step=j, elem=list(pos))
            if lock:
                e.oblige("window:voltage-locked", T.bor(T.bnot(T.tob(s0[pos])), T.tob(T.eq(vj[pos], v0[pos]))), step=j, elem=list(pos))
        rr = e.read(n.refrac)
        for pos in np.ndindex(*rr.shape):
            e.oblige("window:refrac-nonnegative", T.ge(rr[pos], 0), step=j)
        e.oblige_eq("window:spike-attribute", n.spike, sj, split=True, step=j)


def h_kernels(e, cfg):
    """Functional kernels with SYMBOLIC hyper-parameters (0-dim tensors in their documented domain)."""
    import inferno.neural.functional as nf
    which = cfg["kernel"]
    shape = (2,)
    V = e.sym(shape, torch.float64, "V", lo=-200, hi=200)
    I = e.sym(shape, torch.float64, "I", lo=-500, hi=500)
    def hpar(name, lo=None, hi=None, strict_pos=False):
        t = e.sym((), torch.float64, name, lo=lo, hi=hi)
        if strict_pos:
            e.assume(T.gt(e.read(t)[()], 0))
        return t
    dt, tc = hpar("dt", 0, 10, True), hpar("tc", 0, 100, True)
    rest, res = hpar("rest", -100, 100), hpar("res", -10, 10)
    v, i = e.read(V), e.read(I)
    d, t_, r_, rs = (e.read(x)[()] for x in (dt, tc, rest, res))
    e.tag(kernel=which)
    if which == "linear":
        got = nf.voltage_integration_linear(I, V, step_time=dt, time_constant=tc, rest_v=rest, resistance=res)
        decay = T.exp_(T.div(T.neg(d), t_))
        exp = [T.add(T.add(r_, T.mul(T.sub(T.sub(v[j], r_), T.mul(rs, i[j])), decay)), T.mul(rs, i[j])) for j in range(2)]
    elif which == "quadratic":
        crit, aff = hpar("crit", -100, 100), hpar("aff", 0, 10, True)
        c_, a_ = e.read(crit)[()], e.read(aff)[()]
        got = nf.voltage_integration_quadratic(I, V, step_time=dt, rest_v=rest, crit_v=crit, affinity=aff, time_constant=tc, resistance=res)
        exp = [T.add(v[j], T.mul(T.div(d, t_), T.add(T.mul(T.mul(a_, T.sub(v[j], r_)), T.sub(v[j], c_)), T.mul(rs, i[j])))) for j in range(2)]
    else:
        rh, sh = hpar("rheo", -100, 100), hpar("sharp", 0, 10, True)
        h_, s_ = e.read(rh)[()], e.read(sh)[()]
        got = nf.voltage_integration_exponential(I, V, step_time=dt, rest_v=rest, rheobase_v=rh, sharpness=sh, time_constant=tc, resistance=res)
        exp = [T.add(v[j], T.mul(T.div(d, t_), T.add(T.add(T.neg(T.sub(v[j], r_)), T.mul(s_, T.exp_(T.div(T.sub(v[j], h_), s_)))), T.mul(rs, i[j])))) for j in range(2)]
    e.oblige_eq("kernel:value", got, obj(np.array(exp, dtype=object), (2,)), split=True)


def checks(tier):
    th = tier == "thorough"
    classes = ["LIF", "ALIF", "GLIF1", "GLIF2", "QIF", "Izhikevich", "EIF", "AdEx"]
    timing = [(1.0, 0.0), (1.0, 1.0), (1.0, 2.0), (1.0, 2.5), (0.1, 0.3), (1.3, 2.0), (0.5, 0.2)]
    step = []
    for cls in classes:
        for hpi in range(len(HP[cls]) if th else 1):
            for (dt, rt) in timing:
                for shape in ([(2,), (2, 2)] if th else [(2,)]):
                    for B in ([1, 2] if (th or (dt, rt) in ((1.0, 2.0), (0.1, 0.3))) else [1]):
                        for lock in (True, False):
                            adapts = ["on", "off", "train", "eval"] if cls in ADAPT_THRESH | ADAPT_CURR else ["-"]
                            if not th and cls in ADAPT_THRESH | ADAPT_CURR and (dt, rt) not in ((1.0, 2.0), (0.1, 0.3), (1.0, 0.0)):
                                adapts = ["on"]
                            for ad in adapts:
                                step.append(dict(cls=cls, hp=hpi, dt=dt, refrac_t=rt, shape=shape, B=B, lock=lock, adapt=ad))
    win = []
    for cls in classes:
        for (dt, rt) in timing + [(0.5, 1.3)]:
            for lock in (True, False):
                win.append(dict(cls=cls, dt=dt, refrac_t=rt, shape=(2,), B=(2 if th else 1), lock=lock))
    ker = [dict(kernel=k) for k in ("linear", "quadratic", "exponential")]
    # bit-exact float32 mode (symtorch/fp.py): the claims the statement makes exactly - reset to exactly the documented voltage, no spike and an
    # unchanged (locked) voltage inside the window, refrac never negative - over IEEE float32 inputs, including huge drives for the linear models
    fpw = []
    for cls in ("LIF", "ALIF", "GLIF1", "GLIF2", "QIF", "Izhikevich"):       # EIF / AdEx integrate through exp(): not modelled bit-exactly
        for (dt, rt) in ((1.0, 2.0), (0.1, 0.3)) + (((1.3, 2.0), (1.0, 0.0), (1.0, 2.5), (0.5, 1.3)) if th else ()):
            for lock in (True, False):
                if not th and ((dt, rt) != (1.0, 2.0) and (not lock or cls in ("QIF", "Izhikevich"))):
                    continue
                fpw.append(dict(cls=cls, dt=dt, refrac_t=rt, shape=((2,) if th else (1,)), B=1, lock=lock))
        if cls in ("LIF", "ALIF", "GLIF1"):
            fpw.append(dict(cls=cls, dt=1.0, refrac_t=2.0, shape=(1,), B=1, lock=True, imax=1e12))
    return [Check("step", h_step, step, timeout_s=600), Check("window", h_window, win, timeout_s=600),
            Check("kernels", h_kernels, ker, timeout_s=600), Check("window_fp32", h_window, fpw, opts={"fp32": True, "query_timeout_ms": 120000}, timeout_s=900)]


BOUNDS = {
    "quick": {"classes": 8, "(dt, refrac_t)": "[(1,0),(1,1),(1,2),(1,2.5),(0.1,0.3),(1.3,2),(0.5,0.2)]", "shape": "(2,)", "batch": [1, 2], "refrac_lock": [True, False],
              "adaptation": ["on", "off", "None+train", "None+eval"], "hyper-parameter sets": 1, "steps": "1 from an arbitrary state + refractory window ceil(refrac_t/dt)-1 steps",
              "window_fp32": "the window obligations again over IEEE float32 variables (bit-exact, round-to-nearest-even) for the 6 classes without exp(); drives up to 1e12 for LIF/ALIF/GLIF1"},
    "thorough": {"classes": 8, "(dt, refrac_t)": "as quick", "shape": ["(2,)", "(2,2)"], "batch": [1, 2], "refrac_lock": [True, False], "adaptation": "all", "hyper-parameter sets": 2},
}
OUTSIDE = ["float32 rounding in the step-equation check (exact reals there; the window check also runs bit-exactly in float32)", "inputs/voltages beyond +-500/+-200 (1e12 for the linear models in float32 mode)",
           "NaN or infinite inputs", "EIF / AdEx in float32 mode (exp of a symbolic float is not modelled)"]
ASSUMPTIONS = ["state invariant 0 <= refrac <= refrac_t (checked inductive by obligation step:refrac-invariant)"]
