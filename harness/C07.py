"""C07 — spike traces and fold reducers equal their closed forms over any event history.

(i) inferno.trace_* one-step functions from an arbitrary symbolic trace.
(ii) every FoldReducer class: T symbolic observations from clear (also after an interleaved
clear(keepshape=T/F) at every position), peek == closed form at every step, dump() lists the
record newest-first, view(time) with a SYMBOLIC per-element time returns the recorded value
interpolated by the reducer's documented rule.
Boolean observations are indicators, so every obligation is a polynomial identity.
"""
import math
from fractions import Fraction as F

import numpy as np
import torch

from symtorch.run import Check
from symtorch import terms as T
from symtorch.engine import round_to_dtype, obj

PROPERTY = "C07"


def K(x):
    return round_to_dtype(F(float(x)), torch.float32)


def num(v):
    return T.as_num(v)


# --------------------------------------------------------------------------- (i) functions
def h_functions(e, cfg):
    import inferno
    fn = cfg["fn"]
    shape = (2,)
    decay, amp, scale = cfg.get("decay", 0.5), cfg["amp"], cfg.get("scale", 0.5)
    tr = e.sym(shape, torch.float32, "tr", lo=-10, hi=10)
    tra = e.read(tr)
    e.tag(fn=fn, first=cfg["first"])
    kd, ka, ks = K(decay), K(amp), K(scale)
    if fn in ("nearest", "cumulative"):
        tol = cfg["tol"]
        if cfg["obs"] == "bool":
            ob = e.sym(shape, torch.bool, "ob", ind=True).float()
            target = 1
        else:
            ob = e.sym(shape, torch.float32, "ob", lo=-3, hi=3)
            target = 1.0
        oa = e.read(ob)
        f = inferno.trace_nearest if fn == "nearest" else inferno.trace_cumulative
        got = f(ob, None if cfg["first"] else tr, decay=decay, amplitude=amp, target=target, tolerance=tol)
        exp = np.empty(shape, dtype=object)
        for i in range(2):
            m = T.eq(oa[i], K(target)) if tol is None else T.le(T.abs_(T.sub(oa[i], K(target))), K(tol))
            mi = T.ite(m, F(1), F(0))
            if cfg["first"]:
                exp[i] = T.mul(ka, mi)
            elif fn == "nearest":
                exp[i] = T.ite(m, ka, T.mul(kd, tra[i]))
            else:
                exp[i] = T.add(T.mul(kd, tra[i]), T.mul(ka, mi))
    elif fn in ("nearest_scaled", "cumulative_scaled"):
        ob = e.sym(shape, torch.float32, "ob", lo=-3, hi=3)
        oa = e.read(ob)
        f = inferno.trace_nearest_scaled if fn == "nearest_scaled" else inferno.trace_cumulative_scaled
        got = f(ob, None if cfg["first"] else tr, decay=decay, amplitude=amp, scale=scale, matchfn=lambda x: x > 0.25)
        exp = np.empty(shape, dtype=object)
        for i in range(2):
            m = T.gt(oa[i], K(0.25))
            val = T.add(T.mul(ks, oa[i]), ka)
            if cfg["first"]:
                exp[i] = T.ite(m, val, F(0))
            elif fn == "nearest_scaled":
                exp[i] = T.ite(m, val, T.mul(kd, tra[i]))
            else:
                exp[i] = T.add(T.mul(kd, tra[i]), T.ite(m, val, F(0)))
    else:  # exp_* wrappers compute the decay from (step_time, time_constant / rate_constant)
        dt, tc = cfg["dt"], cfg["tc"]
        ob = e.sym(shape, torch.bool, "ob", ind=True).float()
        oa = e.read(ob)
        if fn == "exp_nearest":
            got = inferno.exp_trace_nearest(ob, tr, step_time=dt, time_constant=tc, amplitude=amp, target=1)
            d = K(math.exp(-dt / tc))
        elif fn == "exprate_nearest":
            got = inferno.exprate_trace_nearest(ob, tr, step_time=dt, rate_constant=1 / tc, amplitude=amp, target=1)
            d = K(math.exp(-(1 / tc) * dt))
        elif fn == "exp_cumulative":
            got = inferno.exp_trace_cumulative(ob, tr, step_time=dt, time_constant=tc, amplitude=amp, target=1)
            d = K(math.exp(-dt / tc))
        else:
            got = inferno.exprate_trace_cumulative(ob, tr, step_time=dt, rate_constant=1 / tc, amplitude=amp, target=1)
            d = K(math.exp(-(1 / tc) * dt))
        exp = np.empty(shape, dtype=object)
        for i in range(2):
            x = num(oa[i])
            if "nearest" in fn:
                exp[i] = T.add(T.mul(x, ka), T.mul(T.sub(1, x), T.mul(d, tra[i])))
            else:
                exp[i] = T.add(T.mul(d, tra[i]), T.mul(ka, x))
    e.oblige_eq("trace-fn:value", got, exp, split=True)


# --------------------------------------------------------------------------- (ii) reducers
TC, AMP, SCALE, ALPHA = 3.0, 1.25, 0.5, 0.3


def build(cfg):
    import inferno.observe as ob
    dt, dur, inpl = cfg["dt"], cfg["duration"], cfg["inplace"]
    k = cfg["reducer"]
    kw = dict(duration=dur, inplace=inpl, inclusive=cfg.get("inclusive", True))
    if k == "nearest":
        return ob.NearestTraceReducer(dt, TC, AMP, True, **kw)
    if k == "cumulative":
        return ob.CumulativeTraceReducer(dt, TC, AMP, True, **kw)
    if k == "scalednearest":
        return ob.ScaledNearestTraceReducer(dt, TC, AMP, SCALE, lambda x: x > 0.25, **kw)
    if k == "scaledcumulative":
        return ob.ScaledCumulativeTraceReducer(dt, TC, AMP, SCALE, lambda x: x > 0.25, **kw)
    if k == "condnearest":
        return ob.ConditionalNearestTraceReducer(dt, TC, AMP, SCALE, **kw)
    if k == "condcumulative":
        return ob.ConditionalCumulativeTraceReducer(dt, TC, AMP, SCALE, **kw)
    if k.startswith("event"):
        return ob.EventReducer(dt, lambda x: x, initial=k.split("-")[1], **kw)
    if k == "passthrough":
        return ob.PassthroughReducer(dt, **kw)
    if k == "ema":
        return ob.EMAReducer(dt, ALPHA, **kw)
    if k == "ca":
        return ob.CAReducer(dt, **kw)
    raise AssertionError(k)


def observe(e, k, shape, t, tag=""):
    """Returns (args for the reducer call, per-step record for the oracle)."""
    if k in ("nearest", "cumulative") or k.startswith("event"):
        x = e.sym(shape, torch.bool, f"x{tag}{t}", ind=True)
        return (x,), dict(x=e.read(x))
    if k in ("scalednearest", "scaledcumulative", "passthrough", "ema", "ca"):
        x = e.sym(shape, torch.float32, f"x{tag}{t}", lo=-3, hi=3)
        return (x,), dict(x=e.read(x))
    x = e.sym(shape, torch.float32, f"x{tag}{t}", lo=-3, hi=3)
    c = e.sym(shape, torch.bool, f"c{tag}{t}", ind=True)
    return (x, c), dict(x=e.read(x), c=e.read(c))


def closed_form(k, hist, i, dt):
    """Value for element i after the observations in hist (oldest first)."""
    t = len(hist) - 1
    al, A, S = K(math.exp(-dt / TC)), K(AMP), K(SCALE)
    if k == "cumulative":
        v = F(0)
        for s, h in enumerate(hist):
            v = T.add(v, T.mul(A * al ** (t - s), num(h["x"][i])))
        return v
    if k == "nearest":
        v = F(0)
        for s, h in enumerate(hist):
            term = T.mul(A * al ** (t - s), num(h["x"][i]))
            for r in range(s + 1, t + 1):
                term = T.mul(term, T.sub(1, num(hist[r]["x"][i])))
            v = T.add(v, term)
        return v
    if k in ("scaledcumulative", "condcumulative"):
        v = F(0)
        for s, h in enumerate(hist):
            m = T.gt(h["x"][i], K(0.25)) if k == "scaledcumulative" else h["c"][i]
            contrib = T.add(T.mul(S, h["x"][i]), A)
            if k == "scaledcumulative":
                v = T.add(v, T.ite(m, T.mul(al ** (t - s), contrib), F(0)))
            else:
                v = T.add(v, T.mul(T.mul(al ** (t - s), contrib), num(m)))
        return v
    if k in ("scalednearest", "condnearest"):
        v = F(0)
        for s, h in enumerate(hist):   # oldest -> newest: a later event overrides
            m = T.gt(h["x"][i], K(0.25)) if k == "scalednearest" else h["c"][i]
            contrib = T.add(T.mul(S, h["x"][i]), A)
            v = T.ite(m, contrib, T.mul(al, v) if s > 0 else F(0))
        return v
    if k.startswith("event"):
        init = {"inf": T.num(float("inf")), "nan": T.num(float("nan")), "zero": F(0)}[k.split("-")[1]]
        kd = K(dt)
        v = None
        for s, h in enumerate(hist):
            prev = init if s == 0 else T.add(v, kd)
            v = T.ite(h["x"][i], F(0), prev)
        return v
    if k == "passthrough":
        return hist[-1]["x"][i]
    if k == "ema":
        a = K(ALPHA)
        v = hist[0]["x"][i]
        for h in hist[1:]:
            v = T.add(T.mul(a, h["x"][i]), T.mul(T.sub(1, a), v))
        return v
    if k == "ca":
        v = F(0)
        for h in hist:
            v = T.add(v, h["x"][i])
        return T.div(v, len(hist))
    raise AssertionError(k)


def event_closed(hist, i, dt, initial):
    """Independent closed form for the event reducer: time since the most recent event."""
    kd = K(dt)
    t = len(hist) - 1
    none = {"inf": T.num(float("inf")), "nan": T.num(float("nan")), "zero": kd * t}[initial]
    v = none
    for s, h in enumerate(hist):
        v = T.ite(h["x"][i], kd * (t - s), v)
    return v


def interp_rule(k, older, newer, sa, dt):
    if k in ("nearest", "cumulative", "scalednearest", "scaledcumulative", "condnearest", "condcumulative"):
        return T.mul(older, T.exp_(T.div(T.neg(sa), K(TC))))
    if k.startswith("event"):
        return T.add(older, sa)
    if k == "passthrough":
        return older
    return T.add(older, T.mul(T.div(T.sub(newer, older), K(dt)), sa))     # ema / ca: linear


def h_reducer(e, cfg):
    k, dt, Tn = cfg["reducer"], cfg["dt"], cfg["T"]
    shape = (2,)
    r = build(cfg)
    e.tag(reducer=k, inplace=cfg["inplace"], clear_at=cfg.get("clear_at"), dt_is_one=(dt == 1.0))
    hist = []
    e.oblige("initial:peek-none", r.peek() is None and r.view(0.0) is None and r.dump() is None)
    rec_vals = []
    for t in range(Tn):
        if cfg.get("clear_at") == t:
            r.clear(keepshape=cfg["keepshape"])
            hist, rec_vals = [], []
            e.oblige("clear:peek-none", r.peek() is None and r.dump() is None)
        args, rec = observe(e, k, shape, t)
        r(*args)
        hist.append(rec)
        exp = np.empty(shape, dtype=object)
        for i in range(2):
            exp[i] = closed_form(k, hist, (i,), dt) if not k.startswith("event") else event_closed(hist, (i,), dt, k.split("-")[1])
        rec_vals.append(exp)
        e.oblige_eq("peek:closed-form", r.peek(), exp, split=True, step=t)
        e.oblige_eq("latest:closed-form", r.latest, exp, step=t)
    N = r.data_.recordsz
    # dump: newest first
    d = r.dump()
    avail = min(N, len(rec_vals))
    e.oblige("dump:shape", tuple(d.shape) == (N, *shape), got=str(tuple(d.shape)))
    for j in range(avail):
        e.oblige_eq("dump:newest-first", d[j], rec_vals[-1 - j], j=j)
    # view with a symbolic per-element time inside the observed range
    if N > 1 and avail > 1:
        kd = K(dt)
        tmax = kd * (avail - 1)
        tt = e.sym(shape, torch.float32, "vt", lo=0, hi=tmax)
        ta = e.read(tt)
        tol = 1e-7
        got = r.view(tt, tolerance=tol)
        exp = np.empty(shape, dtype=object)
        for i in range(2):
            t_ = ta[i]
            v = None
            for j in reversed(range(avail - 1)):
                sa = T.sub(kd * (j + 1), t_)
                val = interp_rule(k, rec_vals[-1 - (j + 1)][i], rec_vals[-1 - j][i], sa, dt)
                cond = T.band(T.tob(T.gt(t_, T.add(kd * j, K(tol)))), T.tob(T.lt(t_, T.sub(kd * (j + 1), K(tol)))))
                v = val if v is None else T.ite(cond, val, v)
            for j in reversed(range(avail)):
                cond = T.le(T.abs_(T.sub(kd * j, t_)), K(tol))
                v = T.ite(cond, rec_vals[-1 - j][i], v)
            exp[i] = v
        e.oblige_eq("view:tensor-time", got, exp, split=True)
        # scalar grid times
        for j in range(avail):
            e.oblige_eq("view:scalar-grid", r.view(float(j * dt)), rec_vals[-1 - j], j=j)
    else:
        e.oblige_eq("view:zero", r.view(0.0), rec_vals[-1])


def checks(tier):
    th = tier == "thorough"
    fns = []
    for fn in ("nearest", "cumulative"):
        for first in (False, True):
            for obs in ("bool", "float"):
                for tol in ((None, 0.5) if obs == "float" else (None,)):
                    for decay, amp in ((0.75, 1.0), (0.3, -2.0)):
                        fns.append(dict(fn=fn, first=first, obs=obs, tol=tol, decay=decay, amp=amp))
    for fn in ("nearest_scaled", "cumulative_scaled"):
        for first in (False, True):
            fns.append(dict(fn=fn, first=first, decay=0.75, amp=1.5, scale=0.5))
    for fn in ("exp_nearest", "exprate_nearest", "exp_cumulative", "exprate_cumulative"):
        for dt, tc in ((1.0, 20.0), (1.3, 3.0)):
            fns.append(dict(fn=fn, first=False, dt=dt, tc=tc, amp=1.0))
    reds = ["nearest", "cumulative", "scalednearest", "scaledcumulative", "condnearest", "condcumulative", "event-inf", "event-nan", "event-zero", "passthrough", "ema", "ca"]
    red = []
    for k in reds:
        for dt in (1.0, 1.3):
            for dmul in ((0, 1, 2) if th else (0, 2)):
                for inplace in (False, True):
                    Tn = 6 if th else 4
                    clears = [None] + ([(c, ks) for c in range(1, Tn) for ks in (True, False)] if th else [(2, inplace)])
                    for cl in clears:
                        cfg = dict(reducer=k, dt=dt, duration=dmul * dt, inplace=inplace, T=Tn)
                        if cl:
                            cfg.update(clear_at=cl[0], keepshape=cl[1])
                        red.append(cfg)
    o = {"div_policy": "xr"}
    return [Check("trace_functions", h_functions, fns, opts=o, timeout_s=300), Check("reducers", h_reducer, red, opts=o, timeout_s=900)]


BOUNDS = {
    "quick": {"reducers": 12, "dt": [1.0, 1.3], "duration": ["0", "2dt (inclusive)"], "observations": "T=4 symbolic (indicator spikes / reals in [-3,3])", "clear": "none, or at step 2",
              "view": "symbolic per-element time within the observed range + scalar grid times", "inplace": [False, True]},
    "thorough": {"T": 6, "duration": ["0", "dt", "2dt"], "clear": "at every position, keepshape T/F"},
}
OUTSIDE = ["view times before the first observation (record fill value)", "time constant / amplitude / scale other than (3.0, 1.25, 0.5); alpha other than 0.3",
           "exp is uninterpreted in view obligations (same term on both sides)"]
