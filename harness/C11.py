"""C11 — batch samples never interact: a batch run equals independent single-sample runs.

2-safety by self-composition.  A component P with batch size B and B batch-size-1 copies Q_b
share symbolic parameters; their states are planted from the SAME symbolic per-sample values
(arbitrary state, so one step is an inductive step), then one step with arbitrary per-sample
inputs: outputs, every state tensor and every recorded history of P sliced at b equal Q_b's.
Layers are unrolled for T steps from the initial state; trainers with a sum batch reduction:
the batched step's parts equal the sum of the per-sample steps' parts.
"""
import math
from fractions import Fraction as F

import numpy as np
import torch

from symtorch.run import Check
from symtorch import terms as T
from harness.common import K, scripted_neuron_class, num, sum_
from harness import C03, C04

PROPERTY = "C11"


def slice_b(t, b):
    return t[b:b + 1]


def h_neuron(e, cfg):
    cls, B, dt, rt = cfg["cls"], cfg["B"], cfg["dt"], cfg["refrac_t"]
    shape = (2,)
    hp = C03.HP[cls][0]
    P = C03.build(cls, shape, dt, rt, hp, B)
    Qs = [C03.build(cls, shape, dt, rt, hp, 1) for _ in range(B)]
    adaptive = cls in C03.ADAPT_THRESH | C03.ADAPT_CURR
    freeze = cfg.get("freeze", "eval")
    for n in [P] + Qs:
        # adaptations are learned quantities (documented batch reduction): frozen here, by eval mode or by the explicit adapt=False argument in training mode
        n.eval() if freeze == "eval" else n.train()
    kw = {"adapt": False} if (adaptive and freeze == "kwarg") else {}
    e.tag(component=cls, freeze=freeze)
    V = e.sym((B, *shape), torch.float32, "V", lo=-200, hi=200)
    R = e.sym((B, *shape), torch.float32, "R", lo=0, hi=C03.K(rt))
    I = e.sym((B, *shape), torch.float32, "I", lo=-500, hi=500)
    A = None
    if cls in C03.ADAPT_THRESH | C03.ADAPT_CURR:
        attr = "threshold_adaptation" if cls in C03.ADAPT_THRESH else "current_adaptation"
        A = e.sym(tuple(getattr(P, attr).shape), torch.float32, "A", lo=-5, hi=5)
    for n, sl in [(P, None)] + [(q, b) for b, q in enumerate(Qs)]:
        n.voltage = V.clone() if sl is None else slice_b(V, sl).clone()
        n.refrac = R.clone() if sl is None else slice_b(R, sl).clone()
        if A is not None:
            setattr(n, attr, A.clone())
    lock = cfg["lock"]
    for t in range(cfg.get("T", 1)):
        if t:
            I = e.sym((B, *shape), torch.float32, f"I{t}", lo=-500, hi=500)
        outP = P(I, refrac_lock=lock, **kw)
        for b, q in enumerate(Qs):
            outQ = q(slice_b(I, b), refrac_lock=lock, **kw)
            e.oblige_eq("neuron:spikes", outP[b:b + 1], e.read(outQ), sample=b, step=t)
            e.oblige_eq("neuron:voltage", P.voltage[b:b + 1], e.read(q.voltage), sample=b, step=t)
            e.oblige_eq("neuron:refrac", P.refrac[b:b + 1], e.read(q.refrac), sample=b, step=t)
            e.oblige_eq("neuron:spike-attr", P.spike[b:b + 1], e.read(q.spike), sample=b, step=t)
        if A is not None:
            e.oblige_eq("neuron:frozen-adaptation-unchanged", getattr(P, attr), e.read(A), step=t)


def plant_syn(e, syns, cfg, ptr):
    """Plant the same symbolic per-sample history into the batched synapse and the single-sample copies."""
    P, Qs = syns[0], syns[1:]
    B = cfg["B"]
    names = {"delta": ["spike_"], "deltaplus": ["spike_", "current_"], "single": ["spike_", "current_"], "double": ["spike_", "pos_current_", "neg_current_"]}[cfg["syn"]]
    for nm in names:
        rec = getattr(P, nm)
        N = rec.recordsz
        shape = tuple(rec.value.shape)          # (N, B, ...)
        if nm == "spike_":
            D = e.sym(shape, torch.bool, "S", ind=True)
        else:
            D = e.sym(shape, torch.float32, "H" + nm[:3], lo=-10, hi=10)
        rec.value = D.clone()
        if ptr:
            rec.incr(ptr)
        for b, q in enumerate(Qs):
            r2 = getattr(q, nm)
            r2.value = D[:, b:b + 1].clone()
            if ptr:
                r2.incr(ptr)
    return names


def h_synapse(e, cfg):
    B = cfg["B"]
    mk = lambda bs: C04.build(dict(cfg, B=bs, shape=(2,)))
    P, Qs = mk(B), [mk(1) for _ in range(B)]
    e.tag(component="synapse:" + cfg["syn"], inplace=cfg["inplace"])
    names = plant_syn(e, [P] + Qs, cfg, cfg["ptr"])
    x = e.sym((B, 2), torch.bool, "x", ind=True)
    args = (x,)
    if cfg["syn"] == "deltaplus":
        args = (x, e.sym((B, 2), torch.float32, "inj", lo=-10, hi=10))
    outP = P(*args)
    N = P.spike_.recordsz
    sel = e.sym((B, 2, 1), torch.float32, "sel", lo=-1, hi=cfg["delay"] + 2 * cfg["dt"]) if N > 1 else None
    curP = P.current_at(sel) if sel is not None else None
    spkP = P.spike_at(sel) if sel is not None else None
    for b, q in enumerate(Qs):
        outQ = q(*[a[b:b + 1] for a in args])
        e.oblige_eq("synapse:forward", outP[b:b + 1], e.read(outQ), sample=b)
        e.oblige_eq("synapse:current", P.current[b:b + 1], e.read(q.current), sample=b)
        e.oblige_eq("synapse:spike", P.spike[b:b + 1], e.read(q.spike), sample=b)
        for nm in names:
            rp, rq = getattr(P, nm), getattr(q, nm)
            for k in range(1, N + 1):
                e.oblige_eq("synapse:history", rp.read(k)[b:b + 1], e.read(rq.read(k)), sample=b, record=nm, k=k)
        if sel is not None:
            e.oblige_eq("synapse:current_at", curP[b:b + 1], e.read(q.current_at(sel[b:b + 1])), split=True, sample=b)
            e.oblige_eq("synapse:spike_at", spkP[b:b + 1], e.read(q.spike_at(sel[b:b + 1])), split=True, sample=b)


def mk_conn(kind, syn, B, delay, dt=1.0):
    import inferno.neural as neural
    ctor = {"delta": neural.DeltaCurrent.partialconstructor(1.5), "deltaplus": neural.DeltaPlusCurrent.partialconstructor(1.5),
            "single": neural.SingleExponentialCurrent.partialconstructor(1.5, 4.0), "double": neural.DoubleExponentialCurrent.partialconstructor(1.5, 6.0, 2.0)}[syn]
    if kind == "dense":
        return neural.LinearDense((2,), (2,), dt, synapse=ctor, delay=delay, batch_size=B, bias=True)
    if kind == "direct":
        return neural.LinearDirect((2,), dt, synapse=ctor, delay=delay, batch_size=B)
    if kind == "lateral":
        return neural.LinearLateral((2,), dt, synapse=ctor, delay=delay, batch_size=B)
    return neural.Conv2D(2, 2, 1, 2, dt, (1, 2), synapse=ctor, delay=delay, batch_size=B)


def share_params(e, conns, delayed, dt, mx):
    c0 = conns[0]
    W = e.sym(tuple(c0.weight.shape), torch.float32, "W", lo=-3, hi=3)
    bsym = e.sym(tuple(c0.bias.shape), torch.float32, "b", lo=-3, hi=3) if c0.biased else None
    d = None
    if delayed:
        d = e.sym(tuple(c0.delay.shape), torch.float32, "d", lo=0, hi=K(mx))
        acc = []
        for v in e.read(d).reshape(-1):
            c = False
            for k in range(int(round(mx / dt)) + 1):
                c = T.bor(c, T.tob(T.eq(v, K(dt) * k)))
            e.assume(c)
    for c in conns:
        c.weight = W.clone()
        if bsym is not None:
            c.bias = bsym.clone()
        if d is not None:
            c.delay = d.clone()


def h_connection(e, cfg):
    kind, syn, B, Tn = cfg["kind"], cfg["syn"], cfg["B"], cfg["T"]
    delay = cfg["delay"]
    P, Qs = mk_conn(kind, syn, B, delay), [mk_conn(kind, syn, 1, delay) for _ in range(B)]
    e.tag(component=f"connection:{kind}/{syn}", delayed=delay is not None)
    share_params(e, [P] + Qs, delay is not None, 1.0, delay or 0.0)
    ish = tuple(P.inshape)
    for t in range(Tn):
        x = e.sym((B, *ish), torch.bool, f"x{t}", ind=True)
        args = (x,) if syn != "deltaplus" else (x, e.sym((B, *ish), torch.float32, f"j{t}", lo=-5, hi=5))
        if kind == "conv":
            args = tuple(a.float() for a in args)
        outP = P(*args)
        for b, q in enumerate(Qs):
            outQ = q(*[a[b:b + 1] for a in args])
            e.oblige_eq("connection:forward", outP[b:b + 1], e.read(outQ), split=True, sample=b, step=t)
            e.oblige_eq("connection:syncurrent", P.syncurrent[b:b + 1], e.read(q.syncurrent), sample=b, step=t)
            e.oblige_eq("connection:synspike", P.synspike[b:b + 1], e.read(q.synspike), sample=b, step=t)


def h_layer(e, cfg):
    import inferno.neural as neural
    from harness import C17
    kind, B, Tn = cfg["layer"], cfg["B"], cfg["T"]
    e.tag(component="layer:" + kind)
    Pm = C17.Params(e)

    def build(bs):
        if kind == "serial":
            c, n = C17.mk_conn(cfg["syn"], 3, 2, bs, True), C17.mk_neuron("lif", 2, bs)
            Pm.give("c", c)
            return neural.Serial(c, n), [n]
        if kind == "biclique":
            cs = {k: C17.mk_conn(cfg["syn"], 3, 2, bs, False) for k in ("a", "b")}
            ns = {k: C17.mk_neuron("lif", 2, bs) for k in ("x", "y")}
            for k in cs:
                Pm.give(k, cs[k])
            return neural.Biclique(list(cs.items()), list(ns.items()), "mean"), list(ns.values())
        cps = dict(ff=C17.mk_conn(cfg["syn"], 3, 2, bs, False), lat=C17.mk_conn("delta", 2, 2, bs, False), fb=C17.mk_conn(cfg["syn"], 2, 2, bs, True),
                   nff=C17.mk_neuron("lif", 2, bs), nfb=C17.mk_neuron("lif", 2, bs))
        for k in ("ff", "lat", "fb"):
            Pm.give(k, cps[k])
        return neural.RecurrentSerial(cps["ff"], cps["lat"], cps["fb"], cps["nff"], cps["nfb"]), [cps["nff"], cps["nfb"]]

    feed = ["ab"]

    def step(layer, xs):
        if kind == "biclique":
            # (partial input: only the named connections are stepped and combined)
            return layer({k: (xs[i],) for i, k in enumerate("ab") if k in feed[0]})
        return layer(xs[0])

    def flat(o):
        return [o[k] for k in sorted(o)] if isinstance(o, dict) else (list(o) if isinstance(o, tuple) else [o])

    P, nP = build(B)
    Qs = [build(1) for _ in range(B)]
    for t in range(Tn):
        xs = [e.sym((B, 3), torch.bool, f"x{t}{i}", ind=True) for i in range(2)]
        feed[0] = cfg.get("feed", ["ab"])[t % len(cfg.get("feed", ["ab"]))]
        oP = flat(step(P, xs))
        from harness.common import witness_any
        witness_any(e, "layer:a-neuron-spikes", *oP)
        if kind == "recurrent" and t >= 1:
            witness_any(e, "layer:a-feedback-spike-is-fed-back", P.feedback_spikes)
        for b, (q, nq) in enumerate(Qs):
            oQ = flat(step(q, [x[b:b + 1] for x in xs]))
            for i, (u, v) in enumerate(zip(oP, oQ)):
                e.oblige_eq("layer:output", u[b:b + 1], e.read(v), sample=b, step=t, out=i)
            for i, (u, v) in enumerate(zip(nP, nq)):
                e.oblige_eq("layer:voltage", u.voltage[b:b + 1], e.read(v.voltage), sample=b, step=t, neuron=i)


def h_trainer(e, cfg):
    """batch_reduction=sum: the batched training step's parts equal the sum of the per-sample steps' parts."""
    import inferno.neural as neural
    import inferno.learn as learn
    kind, B, Tn = cfg["trainer"], cfg["B"], cfg["T"]
    dt = 1.0
    e.tag(component="trainer:" + kind)

    delayed = kind.endswith("-delayed")
    kind = kind.replace("-delayed", "")

    def build(bs):
        conn = neural.LinearDense((2,), (2,), dt, synapse=neural.DeltaCurrent.partialconstructor(1.0), batch_size=bs, delay=(2.0 if (kind.startswith("da") or delayed) else None))
        if delayed:
            conn.delay = torch.tensor([[0.0, 1.0], [2.0, 1.0]])          # heterogeneous per-synapse delays read through the trainer's delayed branch
        conn.updater = conn.defaultupdater()
        neu = scripted_neuron_class()((2,), dt, bs)
        layer = neural.Serial(conn, neu)
        kw = dict(lr_post=1.0, lr_pre=-0.5, tc_post=20.0, tc_pre=15.0, batch_reduction=torch.sum)
        if kind == "stdp":
            tr = learn.STDP(delayed=delayed, **kw)
        elif kind == "triplet":
            tr = learn.TripletSTDP(1.0, 0.3, -0.5, 0.2, 20.0, 40.0, 15.0, 30.0, delayed=delayed, batch_reduction=torch.sum)
        elif kind == "mstdp":
            tr = learn.MSTDP(delayed=delayed, **kw)
        elif kind == "mstdpet":
            tr = learn.MSTDPET(tc_eligibility=10.0, **kw)
        elif kind == "kernel-biphasic":
            # general kernels whose value changes sign with the spike-time difference: potentiating and depressing contributions of
            # different samples to one synapse must not cancel before they are split into parts
            kp = lambda diff, a, **kw: (1.0 - diff.abs()) * (a * (diff >= 0).to(dtype=diff.dtype))
            kn = lambda diff, a, **kw: (1.0 - diff.abs()) * (a * (diff < 0).to(dtype=diff.dtype))
            tr = learn.KernelSTDP(kernel_post=kp, kernel_pre=kn, kernel_post_kwargs=dict(a=1.0), kernel_pre_kwargs=dict(a=-0.5), delayed=False, batch_reduction=torch.sum)
        elif kind == "da-stdp":
            tr = learn.DelayAdjustedSTDP(1.0, -0.5, 20.0, 15.0, batch_reduction=torch.sum)
        else:
            tr = learn.DelayAdjustedSTDPD(-0.5, 1.0, 15.0, 20.0, batch_reduction=torch.sum)
        tr.register_cell("c", layer.cell)
        return layer, conn, neu, tr
    P = build(B)
    Qs = [build(1) for _ in range(B)]
    param = "delay" if kind == "da-stdpd" else "weight"
    for t in range(Tn):
        x = e.sym((B, 2), torch.bool, f"pre{t}", ind=True)
        y = e.sym((B, 2), torch.bool, f"post{t}", ind=True)
        for (layer, conn, neu, tr), sl in [(P, None)] + [(q, b) for b, q in enumerate(Qs)]:
            neu.script.append(y if sl is None else y[sl:sl + 1])
            layer(x if sl is None else x[sl:sl + 1])
            if kind in ("mstdp", "mstdpet"):
                tr(0.75, 2.0)
            else:
                tr()
        accP = getattr(P[1].updater, param)
        for part in ("pos", "neg"):
            gp = getattr(accP, part)
            qs = [getattr(getattr(q[1].updater, param), part) for q in Qs]
            e.oblige("trainer:part-presence", all((g is None) == (gp is None) for g in qs), part=part, step=t)
            if gp is not None:
                tot = e.read(qs[0])
                for g in qs[1:]:
                    tot = np.frompyfunc(T.add, 2, 1)(tot, e.read(g))
                e.oblige_eq("trainer:batched-equals-sum-of-samples", gp, tot, split=True, part=part, step=t)


def checks(tier):
    th = tier == "thorough"
    neu = [dict(cls=c, B=B, dt=dt, refrac_t=rt, lock=lock) for c in C03.HP for B in ((2, 3) if th else (2,)) for (dt, rt) in (((1.0, 2.0), (0.5, 0.2), (1.0, 0.0)) if th else ((1.0, 2.0),))
           for lock in (True, False)]
    # adaptive classes: frozen by the explicit adapt=False argument while in training mode, two steps (a coupled adaptation shows at the second)
    neu += [dict(cls=c, B=2, dt=1.0, refrac_t=2.0, lock=lock, freeze="kwarg", T=2) for c in sorted(C03.ADAPT_THRESH | C03.ADAPT_CURR) for lock in ((True, False) if th else (True,))]
    neu += [dict(cls=c, B=2, dt=1.0, refrac_t=2.0, lock=True, freeze="eval", T=2) for c in sorted(C03.ADAPT_THRESH | C03.ADAPT_CURR)]
    syn = []
    for s in C04.SYN:
        for delay in (0.0, 2.0):
            for inplace in (False, True):
                for ptr in ((0, 1, 2) if (th and delay) else (0,) if not delay else (1,)):
                    syn.append(dict(syn=s, dt=1.0, delay=delay, B=(3 if th else 2), inplace=inplace, interp="previous", tol=0.0, overbound=(0.0, False), ptr=ptr))
    con = [dict(kind=k, syn=s, B=2, delay=d, T=(3 if th else 2)) for k in ("dense", "direct", "lateral", "conv") for s in (("delta", "deltaplus", "single", "double") if th else ("delta", "single"))
           for d in (None, 2.0)]
    lay = [dict(layer=l, syn=s, B=2, T=(3 if th else 2)) for l in ("serial", "biclique", "recurrent") for s in ("delta", "single")]
    lay += [dict(layer="biclique", syn="delta", B=B, T=3, feed=f) for B in ((2, 3) if th else (2,)) for f in (["a", "ab", "b"], ["b", "b", "a"])]      # partially fed bicliques
    trn = [dict(trainer=t, B=2, T=(3 if th else 2)) for t in ("stdp", "triplet", "mstdp", "mstdpet", "da-stdp", "da-stdpd")]
    trn += [dict(trainer="kernel-biphasic", B=B, T=4) for B in ((2, 3) if th else (2,))]
    trn += [dict(trainer=t + "-delayed", B=B, T=3) for t in ("stdp", "triplet", "mstdp") for B in ((2, 3) if th else (2,))]
    o = {"div_policy": "xr", "query_timeout_ms": 120000, "max_paths": 20000}
    return [Check("neurons", h_neuron, neu, opts=o, timeout_s=900), Check("synapses", h_synapse, syn, opts=o, timeout_s=1800), Check("connections", h_connection, con, opts=o, timeout_s=1800),
            Check("layers", h_layer, lay, opts=o, timeout_s=1800), Check("trainers", h_trainer, trn, opts=o, timeout_s=1800)]


BOUNDS = {
    "quick": {"batch": 2, "neurons": "8 classes, one step from an arbitrary planted state (adaptation frozen), refrac_lock on/off; the 4 adaptive classes also for two steps with adaptation frozen by eval mode and by adapt=False in training mode", "synapses": "4 classes, one step from an arbitrary planted history, "
              "delay 0 / 2dt, in-place and not, histories and delayed reads with a symbolic selector compared", "connections": "4 types x delta/single-exponential, with and without (grid) symbolic delays, T=2",
              "layers": "Serial / Biclique / RecurrentSerial, T=2; Biclique stepped with only one of its two connections fed, T=3", "trainers": "STDP, TripletSTDP, MSTDP, MSTDPET, DelayAdjustedSTDP(D) with batch_reduction=sum, T=2; STDP / TripletSTDP / MSTDP with delayed=True on heterogeneous per-synapse delays, T=3; KernelSTDP with a sign-changing kernel, T=4"},
    "thorough": {"batch": [2, 3], "T": 3, "all four synapses in connections": True},
}
OUTSIDE = ["adaptation batch reduction (documented coupling)", "batch sizes above 3"]
