"""C05 — connections compute their documented linear map (dense, direct, lateral, conv2d).

Symbolic inputs (spike indicators + real injected currents through a DeltaPlus synapse),
symbolic weights and biases; the oracle is the index-level definition.  Each harness runs two
steps with the parameters re-assigned in between (weights are state: a cached derived value
must not survive an assignment).  Lateral: diagonal of weight/delay is zero after any
assignment and after an updater application.  Reshaping helpers: like_input(like_synaptic(x))
== x on every read position; receptive views place elements where documented.
"""
import math
from fractions import Fraction as F

import numpy as np
import torch

from symtorch.run import Check
from symtorch import terms as T
from symtorch.engine import round_to_dtype, obj

PROPERTY = "C05"
Q = 1.5


def K(x):
    return round_to_dtype(F(float(x)), torch.float32)


def synctor(kind="deltaplus"):
    import inferno.neural as neural
    if kind == "deltaplus":
        return neural.DeltaPlusCurrent.partialconstructor(Q)
    return neural.DeltaCurrent.partialconstructor(Q)


def inputs(e, shape, B, tag=""):
    s = e.sym((B, *shape), torch.bool, "s" + tag, ind=True)
    j = e.sym((B, *shape), torch.float32, "j" + tag, lo=-10, hi=10)
    sa, ja = e.read(s), e.read(j)
    return s, j, sa, ja


def eff_current(sa, ja, dt):
    g = K(Q / dt)
    x = np.empty(sa.shape, dtype=object)
    for pos in np.ndindex(*sa.shape):
        x[pos] = T.add(T.mul(g, T.as_num(sa[pos])), ja[pos])
    return x


def h_linear(e, cfg):
    import inferno.neural as neural
    kind, B, dt, bias = cfg["kind"], cfg["B"], cfg["dt"], cfg["bias"]
    ish, osh = tuple(cfg["inshape"]), tuple(cfg["outshape"])
    e.tag(kind=kind, bias=bias)
    if kind == "dense":
        conn = neural.LinearDense(ish, osh, dt, synapse=synctor(), bias=bias, batch_size=B)
    elif kind == "direct":
        conn = neural.LinearDirect(ish, dt, synapse=synctor(), bias=bias, batch_size=B)
        osh = ish
    else:
        conn = neural.LinearLateral(ish, dt, synapse=synctor(), bias=bias, batch_size=B)
        osh = ish
    nin, nout = math.prod(ish), math.prod(osh)
    e.oblige("shapes:inshape-outshape", tuple(conn.inshape) == ish and tuple(conn.outshape) == osh)
    for step in range(2):
        W = e.sym(tuple(conn.weight.shape), torch.float32, f"W{step}", lo=-5, hi=5)
        conn.weight = W
        wa = e.read(W)
        ba = None
        if bias:
            Bv = e.sym(tuple(conn.bias.shape), torch.float32, f"b{step}", lo=-5, hi=5)
            conn.bias = Bv
            ba = e.read(Bv)
        s, j, sa, ja = inputs(e, ish, B, str(step))
        out = conn(s, j)
        x = eff_current(sa, ja, dt).reshape(B, nin)
        cur = e.read(conn.synapse.current)
        e.oblige_eq("forward:synapse-current", cur, x, step=step)
        exp = np.empty((B, nout), dtype=object)
        for b in range(B):
            for o in range(nout):
                if kind == "direct":
                    v = T.mul(x[b, o], wa[o])
                else:
                    v = 0
                    for i in range(nin):
                        if kind == "lateral" and i == o:
                            continue
                        v = T.add(v, T.mul(x[b, i], wa[o, i]))
                if bias:
                    v = T.add(v, ba[o])
                exp[b, o] = v
        e.oblige_eq("forward:value", out, exp.reshape(B, *osh), split=True, step=step)
        if kind == "lateral":
            wnow = e.read(conn.weight)
            for i in range(nin):
                e.oblige("lateral:zero-self-weight", T.eq(wnow[i, i], 0), step=step)
                for o in range(nin):
                    if o != i:
                        e.oblige("lateral:offdiag-kept", T.eq(wnow[o, i], wa[o, i]), step=step)
    # reshaping helpers
    xin = e.sym((B, *ish), torch.float32, "xin")
    e.oblige_eq("helpers:like_input(like_synaptic)", conn.like_input(conn.like_synaptic(xin)), e.read(xin))
    xa = e.read(xin).reshape(B, nin)
    pre = conn.presyn_receptive(conn.like_synaptic(xin))
    post_in = e.sym((B, *osh), torch.float32, "yout")
    ya = e.read(post_in).reshape(B, nout)
    post = conn.postsyn_receptive(post_in)
    if kind == "direct":
        e.oblige_eq("helpers:presyn_receptive", pre, xa.reshape(B, nin, 1))
        e.oblige_eq("helpers:postsyn_receptive", post, ya.reshape(B, nout, 1))
    else:
        e.oblige_eq("helpers:presyn_receptive", pre, xa.reshape(B, 1, nin, 1))
        e.oblige_eq("helpers:postsyn_receptive", post, ya.reshape(B, nout, 1, 1))
        # selector-shaped data (B, M, N) -> (B, N, M, 1)
        d3 = e.sym((B, nin, nout), torch.float32, "d3")
        exp3 = np.transpose(e.read(d3), (0, 2, 1)).reshape(B, nout, nin, 1)
        e.oblige_eq("helpers:presyn_receptive-delayed", conn.presyn_receptive(d3), exp3)
    # both broadcast against the weight
    try:
        bshape = torch.broadcast_shapes(tuple(pre.shape[1:-1]) if kind != "direct" else tuple(pre.shape[1:-1]), tuple(conn.weight.shape))
        e.oblige("helpers:broadcast-with-weight", True)
    except RuntimeError:
        e.oblige("helpers:broadcast-with-weight", False)


def h_lateral_mask(e, cfg):
    """Whatever is assigned (weight, delay) or applied by an updater, the diagonal stays zero."""
    import inferno.neural as neural
    n, dt = cfg["n"], 1.0
    conn = neural.LinearLateral((n,), dt, synapse=synctor("delta"), delay=2.0, batch_size=1)
    e.tag(kind="lateral", via=cfg["via"])
    W0 = e.sym((n, n), torch.float32, "W0", lo=-5, hi=5)
    D0 = e.sym((n, n), torch.float32, "D0", lo=0, hi=2)
    conn.weight = W0
    conn.delay = D0
    w0, d0 = e.read(conn.weight).copy(), e.read(conn.delay).copy()
    if cfg["via"] == "updater":
        conn.updater = conn.defaultupdater()
        for r in range(cfg["parts"]):
            conn.updater.weight = (e.sym((n, n), torch.float32, f"p{r}", lo=0, hi=3), e.sym((n, n), torch.float32, f"q{r}", lo=0, hi=3))
            conn.updater.delay = (e.sym((n, n), torch.float32, f"dp{r}", lo=0, hi=3), None)
        exp_w = np.empty((n, n), dtype=object)
        conn.update()
    elif cfg["via"] == "parameter":
        import torch.nn as nn
        conn.weight = nn.Parameter(e.sym((n, n), torch.float32, "Wp", lo=-5, hi=5), False)
        conn.delay = e.sym((n, n), torch.float32, "Dp", lo=0, hi=2)
    elif cfg["via"] in ("transposed", "subblock", "expanded", "transposed-then-updater"):
        # non-contiguous / stride-0 tensors (views): whatever is assigned, the diagonal is masked and the rest is kept
        if cfg["via"].startswith("transposed"):
            Wn, Dn = e.sym((n, n), torch.float32, "Wn", lo=-5, hi=5).t(), e.sym((n, n), torch.float32, "Dn", lo=0, hi=2).t()
        elif cfg["via"] == "subblock":
            Wn, Dn = e.sym((n + 1, n + 2), torch.float32, "Wn", lo=-5, hi=5)[1:, :n], e.sym((n + 2, n + 1), torch.float32, "Dn", lo=0, hi=2)[:n, 1:]
        else:
            Wn, Dn = e.sym((1, 1), torch.float32, "Wn", lo=-5, hi=5).expand(n, n), e.sym((n, 1), torch.float32, "Dn", lo=0, hi=2).expand(n, n)
        wn, dn = e.read(Wn).copy(), e.read(Dn).copy()
        conn.weight = Wn
        conn.delay = Dn
        if cfg["via"].endswith("updater"):
            conn.updater = conn.defaultupdater()
            up = e.sym((n, n), torch.float32, "p0", lo=0, hi=3)
            conn.updater.weight = (up, None)
            conn.update()
            wn = np.frompyfunc(T.add, 2, 1)(wn, e.read(up))
        wa_, da_ = e.read(conn.weight), e.read(conn.delay)
        for o in range(n):
            for i in range(n):
                if o != i:
                    e.oblige("lateral:off-diagonal-kept", T.band(T.tob(T.same(wa_[o, i], wn[o, i])), T.tob(T.same(da_[o, i], dn[o, i]))), elem=[o, i])
    else:
        conn.weight = conn.weight + e.sym((n, n), torch.float32, "dW", lo=-5, hi=5)
        conn.delay = conn.delay * 2 + 1
    wa, da = e.read(conn.weight), e.read(conn.delay)
    for i in range(n):
        e.oblige("lateral:zero-self-weight", T.eq(wa[i, i], 0))
        e.oblige("lateral:zero-self-delay", T.eq(da[i, i], 0))
    # and the map really ignores the diagonal
    s = e.sym((1, n), torch.bool, "s", ind=True)
    out = conn(s)
    e.oblige("lateral:forward-shape", tuple(out.shape) == (1, n))


def out_size(size, k, s, p, d):
    return (size + 2 * p - d * (k - 1) - 1) // s + 1


def h_conv(e, cfg):
    import inferno.neural as neural
    H, W, C, Fn, B, dt, bias = cfg["H"], cfg["W"], cfg["C"], cfg["F"], cfg["B"], cfg["dt"], cfg["bias"]
    (kh, kw), (sh, sw), (ph, pw), (dh, dw) = cfg["kernel"], cfg["stride"], cfg["padding"], cfg["dilation"]
    Ho, Wo = out_size(H, kh, sh, ph, dh), out_size(W, kw, sw, pw, dw)
    conn = neural.Conv2D(H, W, C, Fn, dt, (kh, kw), stride=(sh, sw), padding=(ph, pw), dilation=(dh, dw), synapse=synctor(), bias=bias, batch_size=B)
    e.tag(kind="conv2d", bias=bias)
    e.oblige("shapes:outshape-formula", tuple(conn.outshape) == (Fn, Ho, Wo) and tuple(conn.inshape) == (C, H, W), got=str(conn.outshape))
    for step in range(cfg.get("steps", 2)):
        Wt = e.sym((Fn, C, kh, kw), torch.float32, f"W{step}", lo=-5, hi=5)
        conn.weight = Wt
        wa = e.read(Wt)
        ba = None
        if bias:
            Bv = e.sym((Fn,), torch.float32, f"b{step}", lo=-5, hi=5)
            conn.bias = Bv
            ba = e.read(Bv)
        s, j, sa, ja = inputs(e, (C, H, W), B, str(step))
        out = conn(s.float(), j)
        x = eff_current(sa, ja, dt)
        exp = np.empty((B, Fn, Ho, Wo), dtype=object)
        for b in range(B):
            for f in range(Fn):
                for oi in range(Ho):
                    for oj in range(Wo):
                        v = F(0)
                        for c in range(C):
                            for a in range(kh):
                                for bb in range(kw):
                                    y, xx = oi * sh + a * dh - ph, oj * sw + bb * dw - pw
                                    if 0 <= y < H and 0 <= xx < W:
                                        v = T.add(v, T.mul(wa[f, c, a, bb], x[b, c, y, xx]))
                        if bias:
                            v = T.add(v, ba[f])
                        exp[b, f, oi, oj] = v
        e.oblige_eq("forward:value", out, exp, split=True, step=step)
    # like_input(like_synaptic(x)) == x on every position some window reads
    xin = e.sym((B, C, H, W), torch.float32, "xin")
    xa = e.read(xin)
    back = e.read(conn.like_input(conn.like_synaptic(xin)))
    covered = np.zeros((H, W), dtype=bool)
    for oi in range(Ho):
        for oj in range(Wo):
            for a in range(kh):
                for bb in range(kw):
                    y, xx = oi * sh + a * dh - ph, oj * sw + bb * dw - pw
                    if 0 <= y < H and 0 <= xx < W:
                        covered[y, xx] = True
    acc = True
    for b in range(B):
        for c in range(C):
            for y in range(H):
                for xx in range(W):
                    if covered[y, xx]:
                        acc = T.band(acc, T.tob(T.same(back[b, c, y, xx], xa[b, c, y, xx])))
    e.oblige("helpers:like_input(like_synaptic)", acc)
    # receptive views
    L = Ho * Wo
    syn = conn.like_synaptic(xin)                     # B (C kh kw) L
    sa_ = e.read(syn)
    pre = conn.presyn_receptive(syn)
    e.oblige_eq("helpers:presyn_receptive", pre, sa_.reshape(B, 1, C, kh, kw, L))
    d4 = e.sym((B, C * kh * kw, L, Fn), torch.float32, "d4")
    e.oblige_eq("helpers:presyn_receptive-delayed", conn.presyn_receptive(d4), np.transpose(e.read(d4), (0, 3, 1, 2)).reshape(B, Fn, C, kh, kw, L))
    yo = e.sym((B, Fn, Ho, Wo), torch.float32, "yo")
    e.oblige_eq("helpers:postsyn_receptive", conn.postsyn_receptive(yo), e.read(yo).reshape(B, Fn, 1, 1, 1, L))


def checks(tier):
    th = tier == "thorough"
    lin = []
    shapes = [((2,), (2,)), ((3,), (2,)), ((2, 2), (3,)), ((1,), (1,)), ((2,), (2, 2))] if th else [((3,), (2,)), ((2, 2), (3,)), ((1,), (1,))]
    for kind in ("dense", "direct", "lateral"):
        for ish, osh in shapes:
            for bias in (False, True):
                for B in ((1, 2) if th else (2,)):
                    for dt in ((1.0, 1.3) if th else (1.3,)):
                        lin.append(dict(kind=kind, inshape=ish, outshape=osh, bias=bias, B=B, dt=dt))
    lat = [dict(n=n, via=v, parts=p) for n in ((2, 3) if th else (3,)) for v, p in (("updater", 1), ("updater", 2), ("parameter", 0), ("expression", 0), ("transposed", 0), ("subblock", 0), ("expanded", 0), ("transposed-then-updater", 1))]
    conv = []
    geo = []
    sizes = range(1, 6) if th else (3, 4, 5)
    for H in sizes:
        for W in ((H, max(1, H - 1)) if th else (H,)):
            for k in (1, 2, 3):
                for s in (1, 2):
                    for p in (0, 1):
                        for d in (1, 2):
                            ks = [(k, k)] + ([(k, max(1, k - 1))] if th and k > 1 else [])
                            for kk in ks:
                                if out_size(H, kk[0], s, p, d) >= 1 and out_size(W, kk[1], s, p, d) >= 1:
                                    geo.append((H, W, kk, (s, s), (p, p), (d, d)))
    for n, (H, W, kk, ss, pp, dd) in enumerate(geo):
        for C, Fn in (((1, 1), (2, 1), (1, 2), (2, 2)) if th else ((1, 2) if n % 2 else (2, 1),)):
            conv.append(dict(H=H, W=W, C=C, F=Fn, kernel=kk, stride=ss, padding=pp, dilation=dd, B=(2 if (th or n % 3 == 0) else 1), dt=1.0, bias=bool(n % 2)))
    if th:
        conv += [dict(c, stride=(1, 2), padding=(1, 0)) for c in conv[:: 17] if out_size(c["W"], c["kernel"][1], 2, 0, c["dilation"][1]) >= 1]
    o = {"div_policy": "xr"}
    return [Check("linear", h_linear, lin, opts=o, timeout_s=600), Check("lateral_mask", h_lateral_mask, lat, opts=o, timeout_s=600),
            Check("conv2d", h_conv, conv, opts=o, timeout_s=1200)]


BOUNDS = {
    "quick": {"linear": "dense/direct/lateral; in/out shapes {(3,)->(2,), (2,2)->(3,), (1,)->(1,)}; bias on/off; batch 2; 2 steps with re-assigned parameters",
              "conv2d": "H=W in {3,4,5}; kernel 1..3; stride 1,2; padding 0,1; dilation 1,2; C,F in {1,2}; every combination with a non-empty output",
              "lateral": "n=3; assignment by tensor, Parameter, expression, transposed / sub-block / expanded (non-contiguous) views; updater with 1-2 contributions to weight and delay"},
    "thorough": {"linear": "5 shape pairs, batch 1-2, dt 1.0/1.3", "conv2d": "H,W in 1..5 incl. rectangular inputs/kernels and mixed stride/padding; C,F all of {1,2}^2"},
}
OUTSIDE = ["assignment of +-inf / NaN weights (x*0)", "delayed forward path (covered by C06)", "kernel/stride/dilation beyond the grid"]
