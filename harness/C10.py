"""C10 — updater algebra: accumulate, reduce, bound, apply once, clear.

Symbolic parameter tensor and symbolic potentiating / depressing parts (from one or several
contributors); one application from an arbitrary state checks
    param' = param + B_up(reduce(pos)) - B_lo(reduce(neg))
for every reduction and bounding configuration, the range invariant (one step => forever),
the sharp-bound monotonicity, and operation programs (contribute / read / update / clear in
every order) against a reference model of the accumulators.
"""
from fractions import Fraction as F
import itertools

import numpy as np
import torch

from symtorch.run import Check
from symtorch import terms as T
from symtorch.engine import round_to_dtype, obj

PROPERTY = "C10"


def K(x):
    return round_to_dtype(F(float(x)), torch.float32)


def conn():
    import inferno.neural as neural
    return neural.LinearDense((2,), (2,), 1.0, synapse=neural.DeltaCurrent.partialconstructor(1.0), bias=True)


def custom_reduction(x, dim):
    return x.sum(dim) * 0.5 + x.amax(dim)


def red_oracle(kind, parts):
    """parts: list of element values -> reduced element."""
    if kind in ("sum", "default"):
        v = 0
        for p in parts:
            v = T.add(v, p)
        return v
    if kind == "mean":
        v = 0
        for p in parts:
            v = T.add(v, p)
        return T.div(v, len(parts))
    if kind == "amax":
        v = parts[0]
        for p in parts[1:]:
            v = T.maximum(v, p)
        return v
    if kind == "custom":
        s, m = 0, parts[0]
        for p in parts:
            s = T.add(s, p)
        for p in parts[1:]:
            m = T.maximum(m, p)
        return T.add(T.mul(s, K(0.5)), m)
    raise AssertionError(kind)


def reduction_fn(kind):
    return {"sum": torch.sum, "mean": torch.mean, "amax": torch.amax, "custom": custom_reduction, "default": None}[kind]


def ipow(x, k):
    r = 1
    for _ in range(k):
        r = T.mul(r, x)
    return r


def upper_oracle(fam, p, u, mx, mn, k):
    if fam == "none":
        return u
    d = T.sub(K(mx), p)
    if fam == "power":
        return T.mul(ipow(d, k), u)
    if fam == "scaled_power":
        return T.mul(ipow(T.div(d, K(mx - mn)), k), u)
    if fam == "multiplicative":
        return T.mul(d, u)
    if fam == "scaled_multiplicative":
        return T.mul(T.div(d, K(mx - mn)), u)
    if fam == "sharp":
        return T.mul(T.ite(T.gt(d, 0), F(1), F(0)), u)
    raise AssertionError(fam)


def lower_oracle(fam, p, u, mx, mn, k):
    if fam == "none":
        return u
    d = T.sub(p, K(mn))
    if fam == "power":
        return T.mul(ipow(d, k), u)
    if fam == "scaled_power":
        return T.mul(ipow(T.div(d, K(mx - mn)), k), u)
    if fam == "multiplicative":
        return T.mul(d, u)
    if fam == "scaled_multiplicative":
        return T.mul(T.div(d, K(mx - mn)), u)
    if fam == "sharp":
        return T.mul(T.ite(T.gt(d, 0), F(1), F(0)), u)
    raise AssertionError(fam)


def configure(acc, fam, mode, mx, mn, k):
    import inferno.functional as fn
    half = {"power": (fn.bound_upper_power, fn.bound_lower_power, dict(power=k)),
            "scaled_power": (fn.bound_upper_scaled_power, fn.bound_lower_scaled_power, dict(power=k, range=mx - mn)),
            "multiplicative": (fn.bound_upper_multiplicative, fn.bound_lower_multiplicative, {}),
            "scaled_multiplicative": (fn.bound_upper_scaled_multiplicative, fn.bound_lower_scaled_multiplicative, dict(range=mx - mn)),
            "sharp": (fn.bound_upper_sharp, fn.bound_lower_sharp, {})}
    full = {"power": (fn.bound_power, dict(upper_power=k, lower_power=k)), "scaled_power": (fn.bound_scaled_power, dict(upper_power=k, lower_power=k)),
            "multiplicative": (fn.bound_multiplicative, {}), "scaled_multiplicative": (fn.bound_scaled_multiplicative, {}), "sharp": (fn.bound_sharp, {})}
    if fam == "none" or mode == "none":
        return "none", "none"
    if mode == "full":
        f, kw = full[fam]
        acc.fullbound(f, mx, mn, **kw)
        return fam, fam
    up, lo, kw = half[fam]
    if mode in ("upper", "both"):
        acc.upperbound(up, mx, **kw)
    if mode in ("lower", "both"):
        acc.lowerbound(lo, mn, **kw)
    return (fam if mode in ("upper", "both") else "none"), (fam if mode in ("lower", "both") else "none")


def h_apply(e, cfg):
    import inferno.neural as neural
    c = conn()
    red, fam, mode, k = cfg["reduction"], cfg["family"], cfg["mode"], cfg.get("power", 1)
    mx, mn = 2.0, -1.0
    e.tag(reduction=red, family=fam, mode=mode, power=k)
    if red == "custom":
        upd = neural.Updater(c, "weight", "bias", reduction=custom_reduction)
    else:
        upd = c.defaultupdater()
        if red != "default":
            upd.weight.reduction(reduction_fn(red))
    c.updater = upd
    ufam, lfam = configure(upd.weight, fam, mode, mx, mn, k)
    W = e.sym((2, 2), torch.float32, "W", lo=-3, hi=4)
    c.weight = W
    w = e.read(W).copy()
    b0 = e.read(c.bias).copy()
    npos, nneg = cfg["npos"], cfg["nneg"]
    lo_, hi_ = (0, 1) if cfg.get("unit") else (-2, 2)
    P = [e.sym((2, 2), torch.float32, f"P{i}", lo=lo_, hi=hi_) for i in range(npos)]
    Nn = [e.sym((2, 2), torch.float32, f"N{i}", lo=lo_, hi=hi_) for i in range(nneg)]
    order = cfg.get("order", "interleaved")
    contrib = [("p", t) for t in P] + [("n", t) for t in Nn]
    if order == "reversed":
        contrib = contrib[::-1]
    elif order == "interleaved":
        contrib = [x for pair in itertools.zip_longest([("p", t) for t in P], [("n", t) for t in Nn]) for x in pair if x]
    for kind, t in contrib:
        if kind == "p":
            upd.weight = (t, None)
        else:
            upd.weight = (None, t)
    pa, na = [e.read(t) for t in P], [e.read(t) for t in Nn]
    c.update()
    exp = np.empty((2, 2), dtype=object)
    for pos in np.ndindex(2, 2):
        v = w[pos]
        if npos:
            v = T.add(v, upper_oracle(ufam, w[pos], red_oracle(red, [a[pos] for a in pa]), mx, mn, k))
        if nneg:
            v = T.sub(v, lower_oracle(lfam, w[pos], red_oracle(red, [a[pos] for a in na]), mx, mn, k))
        exp[pos] = v
    e.oblige_eq("apply:value", c.weight, exp, split=True)
    e.oblige_eq("apply:other-parameter-untouched", c.bias, b0)
    # after the default clear a second application changes nothing
    c.update()
    e.oblige_eq("apply:second-application-noop", c.weight, exp)
    e.oblige("apply:cleared", upd.weight.pos is None and upd.weight.neg is None)


def h_invariant(e, cfg):
    """param in [min,max] and reduced magnitudes within the documented bound => param' in [min,max]; sharp never moves further out."""
    c = conn()
    fam, mode, k = cfg["family"], cfg["mode"], cfg.get("power", 1)
    mx, mn = 2.0, -1.0
    upd = c.defaultupdater()
    c.updater = upd
    configure(upd.weight, fam, mode, mx, mn, k)
    e.tag(family=fam, mode=mode, power=k)
    inside = fam != "sharp"
    W = e.sym((2, 2), torch.float32, "W", lo=(mn if inside else -4), hi=(mx if inside else 5))
    c.weight = W
    w = e.read(W).copy()
    cap = (mx - mn) if fam.startswith("scaled") else 1.0
    P = e.sym((2, 2), torch.float32, "P", lo=0, hi=(cap if inside else 3))
    Nn = e.sym((2, 2), torch.float32, "N", lo=0, hi=(cap if inside else 3))
    upd.weight = (P, Nn)
    c.update()
    w1 = e.read(c.weight)
    for pos in np.ndindex(2, 2):
        if inside:
            e.oblige("invariant:stays-in-range", T.band(T.tob(T.ge(w1[pos], K(mn))), T.tob(T.le(w1[pos], K(mx)))), elem=list(pos))
        else:
            e.oblige("sharp:not-further-above", T.bor(T.tob(T.lt(w[pos], K(mx))), T.tob(T.le(w1[pos], w[pos]))), elem=list(pos))
            e.oblige("sharp:not-further-below", T.bor(T.tob(T.gt(w[pos], K(mn))), T.tob(T.ge(w1[pos], w[pos]))), elem=list(pos))


def h_program(e, cfg):
    """Operation programs over the accumulator API against a reference model."""
    c = conn()
    upd = c.defaultupdater()
    c.updater = upd
    W = e.sym((2,), torch.float32, "B0", lo=-3, hi=3)
    c.bias = W
    cur = e.read(W).copy()
    pos, neg = [], []
    prog = []
    n = 0
    for step in range(cfg["len"]):
        op = cfg["first"] if step == 0 else e.choose(8)
        if op == 0:
            t = e.sym((2,), torch.float32, f"p{n}", lo=-2, hi=2); n += 1
            upd.bias = (t, None); pos.append(e.read(t)); prog.append("pos")
        elif op == 1:
            t = e.sym((2,), torch.float32, f"n{n}", lo=-2, hi=2); n += 1
            upd.bias = (None, t); neg.append(e.read(t)); prog.append("neg")
        elif op == 2:
            t, u = e.sym((2,), torch.float32, f"p{n}", lo=-2, hi=2), e.sym((2,), torch.float32, f"n{n}", lo=-2, hi=2); n += 1
            upd.bias = (t, u); pos.append(e.read(t)); neg.append(e.read(u)); prog.append("both")
        elif op == 3:
            gp, gn = upd.bias.pos, upd.bias.neg
            prog.append("read")
            e.oblige("program:read-pos", (gp is None) == (not pos), step=step, program=" ".join(prog))
            e.oblige("program:read-neg", (gn is None) == (not neg), step=step, program=" ".join(prog))
            if pos:
                e.oblige_eq("program:read-pos-value", gp, obj(np.array([red_oracle("sum", [a[i] for a in pos]) for i in range(2)], dtype=object), (2,)), step=step, program=" ".join(prog))
            if neg:
                e.oblige_eq("program:read-neg-value", gn, obj(np.array([red_oracle("sum", [a[i] for a in neg]) for i in range(2)], dtype=object), (2,)), step=step, program=" ".join(prog))
        elif op in (4, 5, 6):
            clear = op != 5
            if op == 6:
                c.updatesome("bias", clear=True); prog.append("updatesome")
            else:
                c.update(clear=clear); prog.append("update" if clear else "update-noclear")
            for i in range(2):
                v = cur[i]
                if pos:
                    v = T.add(v, red_oracle("sum", [a[i] for a in pos]))
                if neg:
                    v = T.sub(v, red_oracle("sum", [a[i] for a in neg]))
                cur[i] = v
            if clear:
                pos, neg = [], []
            e.oblige_eq("program:param-after-update", c.bias, cur.copy(), step=step, program=" ".join(prog))
        else:
            c.clear(); pos, neg = [], []; prog.append("clear")
    c.update()
    for i in range(2):
        v = cur[i]
        if pos:
            v = T.add(v, red_oracle("sum", [a[i] for a in pos]))
        if neg:
            v = T.sub(v, red_oracle("sum", [a[i] for a in neg]))
        cur[i] = v
    e.oblige_eq("program:final-param", c.bias, cur, program=" ".join(prog))


def h_updatesome(e, cfg):
    """updatesome(*names): exactly the named parameters are updated once (and, with the default clear, their parts dropped);
    the others keep their pending parts; a following update() applies only what is still pending."""
    c = conn()
    c.updater = c.defaultupdater()
    names = list(cfg["names"])
    e.tag(call="updatesome(" + ",".join(names) + f", clear={cfg['clear']})")
    cur, pend = {}, {}
    for nm, shape in (("weight", (2, 2)), ("bias", (2,))):
        v0 = e.sym(shape, torch.float32, "V" + nm, lo=-3, hi=3)
        setattr(c, nm, v0)
        cur[nm] = e.read(v0).copy()
        p, n = e.sym(shape, torch.float32, "p" + nm, lo=0, hi=2), e.sym(shape, torch.float32, "n" + nm, lo=0, hi=2)
        setattr(c.updater, nm, (p, n))
        pend[nm] = np.frompyfunc(T.sub, 2, 1)(e.read(p), e.read(n))
    c.updatesome(*names, clear=cfg["clear"])
    for nm in ("weight", "bias"):
        if nm in names:
            cur[nm] = np.frompyfunc(T.add, 2, 1)(cur[nm], pend[nm])
            if cfg["clear"]:
                pend[nm] = None
        e.oblige_eq("updatesome:named-updated-once-others-untouched", getattr(c, nm), cur[nm].copy(), split=True, param=nm)
        acc = getattr(c.updater, nm)
        e.oblige("updatesome:pending-parts", (acc.pos is None and acc.neg is None) == (pend[nm] is None), param=nm, pending=str(pend[nm] is not None))
    c.update()        # applies what is still pending, once
    for nm in ("weight", "bias"):
        if pend[nm] is not None:
            cur[nm] = np.frompyfunc(T.add, 2, 1)(cur[nm], pend[nm])
        e.oblige_eq("updatesome:following-update-applies-only-pending", getattr(c, nm), cur[nm].copy(), split=True, param=nm)
    c.update()
    for nm in ("weight", "bias"):
        e.oblige_eq("updatesome:second-application-changes-nothing", getattr(c, nm), cur[nm].copy(), split=True, param=nm)


def h_trainer_update(e, cfg):
    """CellTrainer.update(): every updater of the registered cells is applied exactly once
    (also when two cells share one connection), with parts contributed by two sources."""
    import inferno.neural as neural
    import inferno.learn as learn
    from harness.common import scripted_neuron_class
    syn = neural.DeltaCurrent.partialconstructor(1.0)
    Scripted = scripted_neuron_class()
    e.tag(layer=cfg["layer"])
    conns = {}
    if cfg["layer"] == "shared-connection":
        ca = neural.LinearDense((2,), (2,), 1.0, synapse=syn, batch_size=1)
        layer = neural.Biclique([("a", ca)], [("x", Scripted((2,), 1.0, 1)), ("y", Scripted((2,), 1.0, 1))], "sum")
        cells = {"A": layer.get_cell("a", "x"), "B": layer.get_cell("a", "y")}
        conns = {"a": ca}
    elif cfg["layer"] == "shared-neuron":
        ca = neural.LinearDense((2,), (2,), 1.0, synapse=syn, batch_size=1)
        cb = neural.LinearDense((2,), (2,), 1.0, synapse=syn, batch_size=1)
        layer = neural.Biclique([("a", ca), ("b", cb)], [("x", Scripted((2,), 1.0, 1))], "sum")
        cells = {"A": layer.get_cell("a", "x"), "B": layer.get_cell("b", "x")}
        conns = {"a": ca, "b": cb}
    else:
        ca = neural.LinearDense((2,), (2,), 1.0, synapse=syn, batch_size=1)
        layer = neural.Serial(ca, Scripted((2,), 1.0, 1))
        cells = {"A": layer.cell}
        conns = {"a": ca}
    for c in conns.values():
        c.updater = c.defaultupdater()
    tr = learn.STDP(1.0, -0.5, 20.0, 15.0)
    for nm, cell in cells.items():
        tr.register_cell(nm, cell)
    expect = {}
    for nm, c in conns.items():
        w0 = e.sym((2, 2), torch.float32, f"W{nm}", lo=-2, hi=2)
        c.weight = w0
        cur = e.read(w0).copy()
        for src in range(cfg["sources"]):
            p, n = e.sym((2, 2), torch.float32, f"p{nm}{src}", lo=0, hi=2), e.sym((2, 2), torch.float32, f"n{nm}{src}", lo=0, hi=2)
            c.updater.weight = (p, n)
            pa, na = e.read(p), e.read(n)
            for pos in np.ndindex(2, 2):
                cur[pos] = T.sub(T.add(cur[pos], pa[pos]), na[pos])
        expect[nm] = cur
    tr.update()
    for nm, c in conns.items():
        e.oblige_eq("trainer-update:applied-once", c.weight, expect[nm], split=True, connection=nm)
    # (CellTrainer.update() is documented to apply, not to clear: nothing is demanded of a second call)


def checks(tier):
    th = tier == "thorough"
    ap = []
    fams = [("none", [1]), ("power", [1, 2, 3]), ("scaled_power", [1, 2]), ("multiplicative", [1]), ("scaled_multiplicative", [1]), ("sharp", [1])]
    for red in ("default", "sum", "mean", "amax", "custom"):
        for fam, ks in fams:
            for k in ks:
                for mode in (["none"] if fam == "none" else ["upper", "lower", "both", "full"]):
                    counts = [(2, 2), (0, 0), (1, 0), (0, 2), (3, 3)] if (th or (red in ("default", "custom") and fam in ("none", "power", "multiplicative"))) else [(2, 2), (0, 1)]
                    for npos, nneg in counts:
                        for order in (("forward", "reversed", "interleaved") if th and npos + nneg > 2 else ("interleaved",)):
                            ap.append(dict(reduction=red, family=fam, mode=mode, power=k, npos=npos, nneg=nneg, order=order))
    inv = []
    for fam, ks in (("multiplicative", [1]), ("scaled_multiplicative", [1]), ("scaled_power", [1, 2, 3]), ("sharp", [1])):
        for k in ks:
            for mode in ("both", "full"):
                inv.append(dict(family=fam, mode=mode, power=k))
    pr = [dict(len=(5 if th else 4), first=i) for i in range(8)]
    return [Check("apply", h_apply, ap, timeout_s=600), Check("invariant", h_invariant, inv, opts={"query_timeout_ms": 120000}, timeout_s=900),
            Check("programs", h_program, pr, opts={"max_paths": 100000}, timeout_s=3000),
            Check("updatesome", h_updatesome, [dict(names=nm, clear=cl) for nm in (("weight",), ("bias",), ("weight", "bias"), ("bias", "weight")) for cl in (True, False)], timeout_s=600),
            Check("trainer_update", h_trainer_update, [dict(layer=l, sources=n) for l in ("serial", "shared-neuron", "shared-connection") for n in (1, 2)], timeout_s=600)]


BOUNDS = {
    "quick": {"parameter": "2x2 symbolic weight", "parts": "0-3 potentiating x 0-3 depressing, interleaved", "reductions": ["default", "sum", "mean", "amax", "custom at construction"],
              "bounding": "none / upper / lower / both halves / full x {power 1-3, scaled power 1-2, multiplicative, scaled multiplicative, sharp}; limits (-1, 2)",
              "updatesome": "updatesome() with one or two parameter names in both orders, clear on/off, followed by two update() calls",
              "trainer_update": "CellTrainer.update() on Serial / Biclique with two cells sharing the neuron group / sharing the connection; 1-2 contributions per updater",
              "programs": "all 4-operation programs over {pos, neg, both, read, update, update(clear=False), updatesome, clear}"},
    "thorough": {"orders": "forward / reversed / interleaved", "programs": "all 5-operation programs"},
}
OUTSIDE = ["non-integer powers", "limits other than (-1, 2)", "float rounding of the reduction order (sums are exact reals here, so order independence is exact)"]
