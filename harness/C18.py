"""C18 — delay-adjusted and kernel STDP agree with their formula and with each other.

Real Serial layer with a delayed connection, scripted post population, real trainers; symbolic
spike histories (indicators), NaN-aware event times (no change while either side has not
spiked), SYMBOLIC per-synapse delays (re-assigned every step for the delay-learning variants).
Per step: accumulated parts == the documented function of t_delta = t_post_last - t_pre_last - d
with the causal branch iff t_delta >= 0.  Relational: KernelSTDP with the shipped exponential
kernels == delay-adjusted STDP; all delays zero => delay-adjusted == unadjusted kernel form.
"""
import math
from fractions import Fraction as F

import numpy as np
import torch

from symtorch.run import Check
from symtorch import terms as T
from harness.common import K, scripted_neuron_class, num, sum_

PROPERTY = "C18"
TC_POS, TC_NEG = 20.0, 15.0
SIGNS = {"hebbian": (1.0, -0.5), "antihebbian": (-1.0, 0.5), "potentiative": (1.0, 0.5), "depressive": (-1.0, -0.5)}
NAN = None


def build(e, cfg, tag=""):
    import inferno.neural as neural
    kind, B, dt = cfg["cell"], cfg["B"], cfg["dt"]
    syn = neural.DeltaCurrent.partialconstructor(1.0)
    mx = cfg.get("maxdelay", 3 * dt)
    if kind == "dense":
        conn = neural.LinearDense((2,), (2,), dt, synapse=syn, delay=mx, batch_size=B)
    elif kind == "conv":
        H, W, kh, kw, Fn = cfg["geom"]
        conn = neural.Conv2D(H, W, 1, Fn, dt, (kh, kw), synapse=syn, delay=mx, batch_size=B)
    else:
        conn = neural.LinearDirect((2,), dt, synapse=syn, delay=mx, batch_size=B)
    conn.updater = conn.defaultupdater()
    neuron = scripted_neuron_class()(tuple(conn.outshape), dt, B)
    return neural.Serial(conn, neuron), conn, neuron


def shapes(cfg):
    """(input shape, output shape) of the cell."""
    if cfg["cell"] != "conv":
        return (2,), (2,)
    H, W, kh, kw, Fn = cfg["geom"]
    return (1, H, W), (Fn, H - kh + 1, W - kw + 1)


def geometry(cfg):
    """parameter index -> synapses sharing it: list of (post-neuron index, input index)."""
    kind = cfg["cell"]
    if kind == "dense":
        return {(o, i): [((o,), (i,))] for o in range(2) for i in range(2)}
    if kind == "direct":
        return {(i,): [((i,), (i,))] for i in range(2)}
    H, W, kh, kw, Fn = cfg["geom"]
    return {(f, 0, a, b): [((f, oy, ox), (0, oy + a, ox + b)) for oy in range(H - kh + 1) for ox in range(W - kw + 1)] for f in range(Fn) for a in range(kh) for b in range(kw)}


def make_trainer(variant, lr_pos, lr_neg, red, tensor_kwargs=False):
    import inferno.learn as learn
    import inferno.functional as fn
    redfn = {"sum": torch.sum, "mean": torch.mean}[red]
    if tensor_kwargs:
        # kernel hyper-parameters handed over as tensors (documented: registered as buffers of the cell state)
        tw = lambda d: {k: torch.tensor(float(v)) for k, v in d.items()}
    else:
        tw = lambda d: d
    kk = dict(kernel_post=fn.exp_stdp_post_kernel, kernel_pre=fn.exp_stdp_pre_kernel)
    if variant == "da-stdp":
        return learn.DelayAdjustedSTDP(lr_pos, lr_neg, TC_POS, TC_NEG, batch_reduction=redfn), "weight"
    if variant == "da-stdpd":
        return learn.DelayAdjustedSTDPD(lr_neg, lr_pos, TC_NEG, TC_POS, batch_reduction=redfn), "delay"
    if variant == "da-kernel":
        return learn.DelayAdjustedKernelSTDP(kernel_post_kwargs=tw(dict(learning_rate=lr_pos, time_constant=TC_POS)), kernel_pre_kwargs=tw(dict(learning_rate=lr_neg, time_constant=TC_NEG)),
                                             batch_reduction=redfn, **kk), "weight"
    if variant == "da-kerneld":
        # delay rule: the causal side (t_delta >= 0, K_post) carries eta_-/tau_-, the anti-causal side eta_+/tau_+
        return learn.DelayAdjustedKernelSTDPD(kernel_post_kwargs=tw(dict(learning_rate=lr_neg, time_constant=TC_NEG)), kernel_pre_kwargs=tw(dict(learning_rate=lr_pos, time_constant=TC_POS)),
                                              batch_reduction=redfn, **kk), "delay"
    if variant == "kernel":
        return learn.KernelSTDP(kernel_post_kwargs=tw(dict(learning_rate=lr_pos, time_constant=TC_POS)), kernel_pre_kwargs=tw(dict(learning_rate=lr_neg, time_constant=TC_NEG)),
                                delayed=False, batch_reduction=redfn, **kk), "weight"
    if variant == "da-mstdp":
        return learn.DelayAdjustedMSTDP(lr_pos, lr_neg, TC_POS, TC_NEG, batch_reduction=redfn), "weight"
    if variant == "da-mstdpd":
        return learn.DelayAdjustedMSTDPD(lr_neg, lr_pos, TC_NEG, TC_POS, batch_reduction=redfn), "delay"
    raise AssertionError(variant)


def stepfold(prev, x, kd):
    """Event-time fold (documented: 0 on an event, else previous + dt; NaN before the first event)."""
    nxt = T.num(float("nan")) if prev is NAN else T.add(prev, kd)
    return T.ite(x, F(0), nxt)


def signed_terms(el_pre, el_post, d, lr_pos, lr_neg, for_delay):
    """Documented per-sample (causal term, anti-causal term) for one synapse, each signed; zero while either side has not spiked."""
    td = T.sub(T.sub(el_pre, el_post), d)
    ad = T.abs_(td)
    if not for_delay:
        causal = T.mul(T.exp_(T.div(ad, -K(TC_POS))), T.mul(K(abs(lr_pos)), T.ite(T.ge(td, 0), F(1), F(0))))
        anti = T.mul(T.exp_(T.div(ad, -K(TC_NEG))), T.mul(K(abs(lr_neg)), T.ite(T.lt(td, 0), F(1), F(0))))
    else:
        # delay rule: eta_- on the causal side, eta_+ on the anti-causal side
        causal = T.mul(T.exp_(T.div(ad, -K(TC_NEG))), T.mul(K(abs(lr_neg)), T.ite(T.ge(td, 0), F(1), F(0))))
        anti = T.mul(T.exp_(T.div(ad, -K(TC_POS))), T.mul(K(abs(lr_pos)), T.ite(T.lt(td, 0), F(1), F(0))))
    nz = lambda v: T.ite(T.isnan(v), F(0), v) if isinstance(v, T.XR) else v
    return nz(causal), nz(anti)


def run(e, cfg, variant, layer, conn, neuron, inputs, delays, signals=None, check=True, tag=""):
    """Drives one trainer over the given symbolic history; returns per-step (pos, neg) element arrays (None when absent)."""
    lr_pos, lr_neg = SIGNS[cfg["signs"]]
    red, dt, B, kind = cfg["reduction"], cfg["dt"], cfg["B"], cfg["cell"]
    if cfg.get("ctor_signs") and variant in ("da-stdp", "da-stdpd", "da-mstdp", "da-mstdpd"):
        # trainer-level defaults of one sign mode, overridden per cell at registration (the cell's own rates decide)
        c_pos, c_neg = SIGNS[cfg["ctor_signs"]]
        tr, param = make_trainer(variant, c_pos, c_neg, red)
        tr.register_cell("c", layer.cell, lr_pos=lr_pos, lr_neg=lr_neg)
    else:
        tr, param = make_trainer(variant, lr_pos, lr_neg, red, tensor_kwargs=bool(cfg.get("tensor_kwargs")))
        tr.register_cell("c", layer.cell)
    for_delay = param == "delay"
    kd = K(dt)
    geo = geometry(cfg)
    ishape, oshape = shapes(cfg)
    wshape = tuple(getattr(conn, param).shape)
    el_pre = {(b, *i): NAN for b in range(B) for i in np.ndindex(*ishape)}
    el_post = {(b, *o): NAN for b in range(B) for o in np.ndindex(*oshape)}
    out = []
    for t, (x, y) in enumerate(inputs):
        if delays[t] is not None:
            conn.delay = delays[t]
        da = e.read(conn.delay)
        neuron.script.append(y)
        layer(x.float() if kind == "conv" else x)
        xa, ya = e.read(x), e.read(y)
        for k in el_pre:
            el_pre[k] = stepfold(el_pre[k], xa[k], kd)
        for k in el_post:
            el_post[k] = stepfold(el_post[k], ya[k], kd)
        sig = None
        if variant in ("da-mstdp", "da-mstdpd"):
            sig = signals[t]
            tr(sig, 1.5) if not isinstance(sig, torch.Tensor) else tr(sig, 0.5)
        else:
            tr()
        acc = getattr(conn.updater, param)
        gp, gn = acc.pos, acc.neg
        exp_pos, exp_neg = np.empty(wshape, dtype=object), np.empty(wshape, dtype=object)
        has_pos = has_neg = False
        for idx, members in geo.items():
            d = da[idx]
            terms = []
            for b in range(B):
                # a shared (convolutional) parameter sums the per-location terms; a location where either side has not spiked contributes nothing
                per = [signed_terms(el_pre[(b, *pi)], el_post[(b, *po)], d, lr_pos, lr_neg, for_delay) for (po, pi) in members]
                terms.append((sum_([c for c, _ in per]), sum_([a for _, a in per])))
            lr_c, lr_a = (lr_pos, lr_neg) if not for_delay else (lr_neg, lr_pos)
            pp, nn = [], []
            if sig is None:
                c = sum_([tc for tc, _ in terms]); a = sum_([ta for _, ta in terms])
                if red == "mean":
                    c, a = T.div(c, B), T.div(a, B)
                (pp if lr_c >= 0 else nn).append(c)
                (pp if lr_a >= 0 else nn).append(a)
                ps = sum_(pp) if pp else None
                ng = sum_(nn) if nn else None
            elif not isinstance(sig, torch.Tensor):
                g = K(abs(sig * 1.5))
                c = sum_([tc for tc, _ in terms]); a = sum_([ta for _, ta in terms])
                if red == "mean":
                    c, a = T.div(c, B), T.div(a, B)
                c, a = T.mul(c, g), T.mul(a, g)
                (pp if lr_c * sig >= 0 else nn).append(c)
                (pp if lr_a * sig >= 0 else nn).append(a)
                ps = sum_(pp) if pp else None
                ng = sum_(nn) if nn else None
            else:
                sa = e.read(sig)
                for which, lr in (("c", lr_c), ("a", lr_a)):
                    for b in range(B):
                        mag = T.abs_(T.mul(sa[b], K(0.5)))
                        val = T.mul(terms[b][0] if which == "c" else terms[b][1], mag)
                        regular = e.branch(T.ge(sa[b], 0))
                        ((pp if (lr >= 0) == regular else nn)).append(val)
                ps = (sum_(pp) if red == "sum" else T.div(sum_(pp), len(pp))) if pp else None
                ng = (sum_(nn) if red == "sum" else T.div(sum_(nn), len(nn))) if nn else None
            exp_pos[idx], exp_neg[idx] = ps, ng
            has_pos, has_neg = has_pos or ps is not None, has_neg or ng is not None
        kernel_like = variant in ("da-kernel", "da-kerneld", "kernel")
        if check:
            if kernel_like:
                # kernel trainers always hand over both parts; a side without a term is zero
                zp = np.where(np.vectorize(lambda v: v is None)(exp_pos), F(0), exp_pos)
                zn = np.where(np.vectorize(lambda v: v is None)(exp_neg), F(0), exp_neg)
                e.oblige_eq(tag + "step:potentiation", gp, zp, split=True, step=t)
                e.oblige_eq(tag + "step:depression", gn, zn, split=True, step=t)
            else:
                e.oblige(tag + "step:parts-present", (gp is not None) == has_pos and (gn is not None) == has_neg, step=t)
                if gp is not None and has_pos:
                    e.oblige_eq(tag + "step:potentiation", gp, exp_pos, split=True, step=t)
                if gn is not None and has_neg:
                    e.oblige_eq(tag + "step:depression", gn, exp_neg, split=True, step=t)
            for nm, g in (("pos", gp), ("neg", gn)):
                if g is not None:
                    ga = e.read(g)
                    e.oblige(tag + "step:no-nan-in-accumulator", T.bnot(sum_bool([T.isnan(v) for v in ga.reshape(-1)])), step=t, part=nm)
        out.append((None if gp is None else e.read(gp).copy(), None if gn is None else e.read(gn).copy()))
        delattr(conn.updater, param) if False else acc.clear()
    return out, tr, param


def sum_bool(vals):
    acc = False
    for v in vals:
        acc = T.bor(acc, v)
    return acc


def history(e, cfg, tag=""):
    B, Tn = cfg["B"], cfg["T"]
    ishape, oshape = shapes(cfg)
    return [(e.sym((B, *ishape), torch.bool, f"pre{tag}{t}", ind=True), e.sym((B, *oshape), torch.bool, f"post{tag}{t}", ind=True)) for t in range(Tn)]


def delays_for(e, cfg, conn, changing):
    Tn, dt = cfg["T"], cfg["dt"]
    shape = tuple(conn.delay.shape)
    mx = cfg.get("maxdelay", 3 * dt)
    if cfg["delays"] == "zero":
        return [torch.zeros(shape)] + [None] * (Tn - 1)
    if changing:
        return [e.sym(shape, torch.float32, f"d{t}", lo=0, hi=min(K(mx), F(mx))) for t in range(Tn)]
    return [e.sym(shape, torch.float32, "d", lo=0, hi=min(K(mx), F(mx)))] + [None] * (Tn - 1)


def signals_for(e, cfg):
    if cfg.get("signal") == "tensor":
        return [e.sym((cfg["B"],), torch.float32, f"sig{t}", lo=-2, hi=2) for t in range(cfg["T"])]
    if cfg.get("signal") == "scalar-":
        return [-0.75] * cfg["T"]
    return [0.75] * cfg["T"]


def h_formula(e, cfg):
    variant = cfg["variant"]
    e.tag(variant=variant, signs=cfg["signs"], cell=cfg["cell"], delays=cfg["delays"])
    layer, conn, neuron = build(e, cfg)
    inputs = history(e, cfg)
    dl = delays_for(e, cfg, conn, changing=variant.endswith("d"))
    run(e, cfg, variant, layer, conn, neuron, inputs, dl, signals_for(e, cfg))


def h_agree(e, cfg):
    """Kernel STDP with the shipped exponential kernels == delay-adjusted STDP (same history, same delays)."""
    pair = cfg["pair"]
    e.tag(pair="/".join(pair), signs=cfg["signs"], delays=cfg["delays"])
    inputs = history(e, cfg)
    outs = []
    dshared = None
    for n, variant in enumerate(pair):
        layer, conn, neuron = build(e, cfg)
        if dshared is None:
            dshared = delays_for(e, cfg, conn, changing=variant.endswith("d"))
        dl = [None if d is None else d.clone() for d in dshared]
        o, tr, param = run(e, cfg, variant, layer, conn, neuron, inputs, dl, None, check=False, tag=f"{variant}:")
        outs.append(o)
    for t, (a, b) in enumerate(zip(*outs)):
        net = []
        for (p, n_) in (a, b):
            shape = (p if p is not None else n_).shape
            z = np.empty(shape, dtype=object); z[...] = F(0)
            pp = p if p is not None else z
            nn = n_ if n_ is not None else z
            net.append(np.frompyfunc(T.sub, 2, 1)(pp, nn))
        e.oblige_eq("agree:net-update", net[0], net[1], split=True, step=t)
        if a[0] is not None and b[0] is not None:
            e.oblige_eq("agree:potentiation", a[0], b[0], split=True, step=t)
        if a[1] is not None and b[1] is not None:
            e.oblige_eq("agree:depression", a[1], b[1], split=True, step=t)


def h_cells(e, cfg):
    """One trainer over TWO cells (two layers) called once per step with a reward scale != 1: every cell's parts equal those of a
    single-cell trainer fed the same histories (nothing may be carried from one cell of the loop to the next)."""
    import inferno.learn as learn
    variant = cfg["variant"]
    lr_pos, lr_neg = SIGNS[cfg["signs"]]
    e.tag(variant=variant, claim="cells-independent")

    def mk():
        if variant in ("stdp", "triplet", "mstdp", "mstdpet"):
            kw = dict(lr_post=lr_pos, lr_pre=lr_neg, tc_post=TC_POS, tc_pre=TC_NEG, batch_reduction=torch.sum)
            if variant == "stdp":
                return learn.STDP(**kw), "weight"
            if variant == "mstdp":
                return learn.MSTDP(**kw), "weight"
            if variant == "mstdpet":
                return learn.MSTDPET(tc_eligibility=10.0, **kw), "weight"
            return learn.TripletSTDP(lr_pos, 0.3, lr_neg, 0.2, TC_POS, 40.0, TC_NEG, 30.0, batch_reduction=torch.sum), "weight"
        return make_trainer(variant, lr_pos, lr_neg, "sum")
    names = ("first", "second", "third")[: cfg["ncells"]]
    multi, param = mk()
    singles, Lm, Ls = {}, {}, {}
    for nm in names:
        Lm[nm], Ls[nm] = build(e, cfg), build(e, cfg)
        multi.register_cell(nm, Lm[nm][0].cell)
        singles[nm] = mk()[0]
        singles[nm].register_cell("c", Ls[nm][0].cell)
    reward = variant in ("mstdp", "mstdpet", "da-mstdp", "da-mstdpd")
    for t in range(cfg["T"]):
        for i, nm in enumerate(names):
            x = e.sym((cfg["B"], 2), torch.bool, f"pre{nm}{t}", ind=True)
            y = e.sym((cfg["B"], 2), torch.bool, f"post{nm}{t}", ind=True)
            d = e.sym(tuple(Lm[nm][1].delay.shape), torch.float32, f"d{nm}{t}", lo=0, hi=min(K(cfg.get("maxdelay", 3 * cfg["dt"])), F(cfg.get("maxdelay", 3 * cfg["dt"]))))
            for (layer, conn, neuron) in (Lm[nm], Ls[nm]):
                conn.delay = d.clone()
                neuron.script.append(y)
                layer(x)
        args = (cfg["signal"], cfg["scale"]) if reward else ()
        multi(*args)
        for nm in names:
            singles[nm](*args)
            am, as_ = getattr(Lm[nm][1].updater, param), getattr(Ls[nm][1].updater, param)
            for part in ("pos", "neg"):
                gm, gs = getattr(am, part), getattr(as_, part)
                e.oblige("cells:part-presence", (gm is None) == (gs is None), cell=nm, part=part, step=t)
                if gm is not None and gs is not None:
                    e.oblige_eq("cells:same-as-single-cell-trainer", gm, e.read(gs), split=True, cell=nm, part=part, step=t)
            am.clear(); as_.clear()


def checks(tier):
    th = tier == "thorough"
    form, agree = [], []
    Tn = 4 if th else 3
    for variant in ("da-stdp", "da-stdpd", "da-kernel", "da-kerneld", "da-mstdp", "da-mstdpd"):
        for signs in SIGNS:
            for cell in ("dense", "direct"):
                if not th and cell == "direct" and signs not in ("hebbian",):
                    continue
                for delays in ("symbolic", "zero"):
                    if not th and delays == "zero" and signs != "hebbian":
                        continue
                    sigs = ["scalar+", "scalar-", "tensor"] if "mstdp" in variant else ["-"]
                    for sg in sigs:
                        for B, red in (((1, "sum"), (2, "mean"), (2, "sum")) if th else ((2, "mean") if sg != "tensor" else (1, "sum"),)):
                            for dt in ((1.0, 1.3) if th else (1.3,)):
                                form.append(dict(variant=variant, signs=signs, cell=cell, delays=delays, signal=sg, B=B, reduction=red, dt=dt, T=(Tn if sg != "tensor" or B == 1 else 2)))
    # kernel hyper-parameters given as tensors
    for variant in ("da-kernel", "da-kerneld", "kernel"):
        for signs in (tuple(SIGNS) if th else ("hebbian", "depressive")):
            form.append(dict(variant=variant, signs=signs, cell="dense", delays=("zero" if variant == "kernel" else "symbolic"), signal="-", B=1, reduction="sum", dt=1.3, T=3, tensor_kwargs=True))
    # per-cell learning-rate overrides whose signs differ from the trainer's defaults
    for variant in ("da-stdp", "da-stdpd", "da-mstdp", "da-mstdpd"):
        for ctor, signs in ((("hebbian", "antihebbian"), ("antihebbian", "hebbian"), ("potentiative", "depressive"), ("hebbian", "depressive")) if th else (("hebbian", "antihebbian"), ("depressive", "hebbian"))):
            form.append(dict(variant=variant, signs=signs, ctor_signs=ctor, cell="dense", delays="symbolic", signal=("scalar-" if "mstdp" in variant else "-"), B=1, reduction="sum", dt=1.3, T=3))
    for pair in (("da-stdp", "da-kernel"), ("da-stdpd", "da-kerneld")):
        agree.append(dict(pair=pair, signs="antihebbian", ctor_signs="hebbian", cell="dense", delays="symbolic", B=1, reduction="sum", dt=1.3, T=3))
    # convolutional cells: a parameter is shared by every output location (receptive dimension > 1), locations that have not spiked yet contribute nothing
    for variant in ("da-stdp", "da-stdpd", "da-kernel", "da-kerneld", "da-mstdp", "da-mstdpd"):
        for signs in (tuple(SIGNS) if th else ("hebbian", "antihebbian")):
            for geom in (((2, 2, 1, 2, 1), (2, 3, 1, 2, 2)) if th else ((2, 2, 1, 2, 1),)):
                for delays in (("symbolic", "zero") if th else ("symbolic",)):
                    for B, red in (((1, "sum"), (2, "mean")) if th else ((1, "sum"),)):
                        form.append(dict(variant=variant, signs=signs, cell="conv", geom=geom, delays=delays, signal=("scalar-" if "mstdp" in variant else "-"), B=B, reduction=red, dt=1.3, T=3))
    for pair in (("da-stdp", "da-kernel"), ("da-stdpd", "da-kerneld")):
        for signs in (tuple(SIGNS) if th else ("hebbian",)):
            agree.append(dict(pair=pair, signs=signs, cell="conv", geom=(2, 2, 1, 2, 1), delays="symbolic", B=1, reduction="sum", dt=1.3, T=3))
    for pair in (("da-stdp", "da-kernel"), ("da-stdpd", "da-kerneld"), ("da-stdp", "kernel")):
        for signs in SIGNS:
            for cell in (("dense", "direct") if th else ("dense",)):
                for delays in (("zero",) if pair[1] == "kernel" else ("symbolic", "zero")):
                    agree.append(dict(pair=pair, signs=signs, cell=cell, delays=delays, B=(2 if th else 1), reduction="sum", dt=1.3, T=Tn))
    o = {"div_policy": "xr", "query_timeout_ms": 120000, "max_paths": 5000}
    cells = [dict(variant=v, signs=sg, cell="dense", B=1, dt=1.3, T=2, ncells=(3 if th else 2), signal=-0.75, scale=0.25, reduction="sum")
             for v in ("da-stdp", "da-stdpd", "da-kernel", "da-kerneld", "da-mstdp", "da-mstdpd", "stdp", "triplet", "mstdp", "mstdpet")
             for sg in (("hebbian", "depressive") if th else ("hebbian",))]
    return [Check("formula", h_formula, form, opts=o, timeout_s=1800), Check("agreement", h_agree, agree, opts=o, timeout_s=1800),
            Check("cells_independent", h_cells, cells, opts=o, timeout_s=1800)]


BOUNDS = {
    "quick": {"variants": ["DelayAdjustedSTDP", "DelayAdjustedSTDPD", "DelayAdjustedKernelSTDP", "DelayAdjustedKernelSTDPD", "DelayAdjustedMSTDP", "DelayAdjustedMSTDPD", "KernelSTDP"],
              "T": 3, "cells": ["dense 2x2", "direct 2", "Conv2D 2x2 input / 1x2 kernel / 1 filter (2 output locations per weight)"], "delays": "symbolic reals in [0, 3dt] per synapse, re-assigned each step for the delay-learning variants; or all zero",
              "cells_independent": "one trainer over 2 cells (10 trainer classes, reward scale 0.25) against single-cell trainers, T=2", "sign modes": "4, also as per-cell overrides of a trainer constructed with another sign mode", "batch": [1, 2], "signal": "scalar +/-, per-sample symbolic"},
    "thorough": {"T": 4, "dt": [1.0, 1.3], "reductions": ["sum", "mean"]},
}
OUTSIDE = ["exp is uninterpreted with instantiated monotonicity/product axioms; identical terms on both sides for the formula checks", "lateral cells; conv cells beyond 2x3 input / 2 filters",
           "event-time fold is the documented recursion (its closed form is property C07)"]
