"""C13 — resizing a record keeps the newest observations in order and the size formula.

Contents are symbolic markers, so "the most recent min(old,new) observations stay at the same
steps-before-present positions and older new slots are zero" is decided for all contents.
Constraint bookkeeping is explored over programs of reconstrain calls (solver-enumerated
choices) on real tensors with symbolic contents.
"""
import math
from fractions import Fraction as F

import numpy as np
import torch
import torch.nn as nn

from symtorch.run import Check
from symtorch import terms as T

PROPERTY = "C13"


def size_formula(dt, duration, inclusive):
    return max(math.ceil(duration / dt) + bool(inclusive), 1)


def mk(kind, shape):
    if kind == "buffer":
        return torch.zeros(shape)
    if kind == "param":
        return nn.Parameter(torch.zeros(shape), False)
    if kind == "none":
        return None
    if kind == "empty":
        return torch.empty(0)
    if kind == "ubuf":
        return nn.UninitializedBuffer()
    if kind == "uparam":
        return nn.UninitializedParameter()
    raise AssertionError(kind)


def h_temporal(e, cfg):
    from inferno.core.infrastructure import Module, RecordTensor
    (dt0, du0, in0), (dt1, du1, in1) = cfg["before"], cfg["after"]
    shape = tuple(cfg["shape"])
    kind = cfg["storage"]
    m = Module()
    RecordTensor.create(m, "rec", dt0, du0, mk(kind, shape), inclusive=in0)
    rec = m.rec
    N0, N1 = size_formula(dt0, du0, in0), size_formula(dt1, du1, in1)
    e.tag(storage=kind, grow=(N1 > N0), shrink=(N1 < N0), initialised=kind in ("buffer", "param"), via=cfg["via"])
    e.oblige("size:constructor-formula", rec.recordsz == N0, got=rec.recordsz, expected=N0)
    init = kind in ("buffer", "param")
    M = None
    if init:
        D = e.sym((N0, *shape), torch.float32, "D")
        rec.value = D
        if cfg["ptr"]:
            rec.incr(cfg["ptr"] % N0)
        arr = e.read(D)
        p = cfg["ptr"] % N0
        M = [arr[(p - j) % N0, ...] for j in range(N0 + 1)]     # M[k] = observation k steps back (k = 1 newest)
    order = cfg["via"]
    if order == "dt-duration-inclusive":
        rec.dt = dt1
        rec.duration = du1
        rec.inclusive = in1
    elif order == "inclusive-duration-dt":
        rec.inclusive = in1
        rec.duration = du1
        rec.dt = dt1
    else:
        rec.duration = du1
        rec.inclusive = in1
        rec.dt = dt1
    e.oblige("size:formula-after-setters", rec.recordsz == N1, got=rec.recordsz, expected=N1)
    e.oblige("getters", rec.dt == dt1 and rec.duration == du1 and bool(rec.inclusive) == bool(in1))
    if not init:
        e.oblige("uninitialised:still-ignored", rec.ignored)
        # first push then creates storage of the new size
        o = e.sym(shape, torch.float32, "o")
        rec.push(o)
        e.oblige("uninitialised:size-after-push", tuple(rec.value.shape) == (N1, *shape), got=str(tuple(rec.value.shape)))
        e.oblige_eq("uninitialised:read", rec.read(1), e.read(o))
        return
    val = rec.value
    e.oblige("resize:storage-shape", tuple(val.shape) == (N1, *shape), got=str(tuple(val.shape)))
    if isinstance(mk(kind, shape), nn.Parameter):
        e.oblige("resize:still-parameter", isinstance(val, nn.Parameter))
    # intermediate sizes (three setters) may shrink below min(N0, N1); what must survive is bounded by the smallest size on the way
    sizes = [N0]
    cur = [dt0, du0, in0]
    seq = {"dt-duration-inclusive": [(0, dt1), (1, du1), (2, in1)], "inclusive-duration-dt": [(2, in1), (1, du1), (0, dt1)],
           "duration-inclusive-dt": [(1, du1), (2, in1), (0, dt1)]}[order]
    for i, v in seq:
        cur[i] = v
        sizes.append(size_formula(*cur))
    keep = min(sizes)
    e.tag(keep=keep)
    zero = np.zeros(shape, dtype=object)
    zero[...] = F(0)
    for k in range(1, N1 + 1):
        got = rec.read(k)
        if k <= keep:
            e.oblige_eq("resize:newest-kept", got, M[k], k=k)
        elif k > max(sizes[:-1] + [0]) and all(s <= sizes[-1] for s in sizes):
            e.oblige_eq("resize:older-slots-zero", got, zero, k=k)
    if len(set(sizes)) == 2 and sizes[0] != sizes[-1]:
        # a single effective resize: exact statement of the property
        for k in range(min(N0, N1) + 1, N1 + 1):
            e.oblige_eq("resize:older-slots-zero", rec.read(k), zero, k=k)
    # the next push overwrites the oldest slot only
    o = e.sym(shape, torch.float32, "o")
    before = [e.read(rec.read(k)).copy() for k in range(1, N1 + 1)]
    rec.push(o)
    e.oblige_eq("after:push-read", rec.read(1), e.read(o))
    for k in range(2, N1 + 1):
        e.oblige_eq("after:push-shifts", rec.read(k), before[k - 2], k=k)


def h_single(e, cfg):
    """One setter call: exactly min(old,new) newest kept, the rest zero (the property's wording)."""
    from inferno.core.infrastructure import Module, RecordTensor
    dt0, du0, in0 = cfg["before"]
    which, newv = cfg["set"]
    shape = tuple(cfg["shape"])
    m = Module()
    RecordTensor.create(m, "rec", dt0, du0, mk(cfg["storage"], shape), inclusive=in0)
    rec = m.rec
    N0 = size_formula(dt0, du0, in0)
    new = {"dt": (newv, du0, in0), "duration": (dt0, newv, in0), "inclusive": (dt0, du0, newv)}[which]
    N1 = size_formula(*new)
    e.tag(storage=cfg["storage"], grow=(N1 > N0), shrink=(N1 < N0), which=which, initialised=True)
    dtype = {"float32": torch.float32, "float64": torch.float64, "int64": torch.int64, "bool": torch.bool}[cfg.get("dtype", "float32")]
    D = e.sym((N0, *shape), dtype, "D", **({"lo": -2 ** 41, "hi": 2 ** 41} if dtype == torch.int64 else {}))
    rec.value = D
    p = cfg["ptr"] % N0
    if p:
        rec.incr(p)
    arr = e.read(D)
    M = [arr[(p - j) % N0, ...] for j in range(N0 + 1)]
    setattr(rec, which, newv)
    e.oblige("size:formula", rec.recordsz == N1 and tuple(rec.value.shape) == (N1, *shape), got=rec.recordsz, expected=N1)
    e.oblige("resize:dtype-kept", rec.value.dtype == dtype, got=str(rec.value.dtype), expected=str(dtype))      # observations are preserved, not converted
    zero = np.zeros(shape, dtype=object)
    zero[...] = F(0)
    for k in range(1, N1 + 1):
        if k <= min(N0, N1):
            e.oblige_eq("resize:newest-kept", rec.read(k), M[k], k=k)
        else:
            e.oblige_eq("resize:older-slots-zero", rec.read(k), zero, k=k)
    e.oblige("pointer-range", 0 <= rec.pointer < N1)


def resolved(d, nd):
    return d if d >= 0 else nd + d


def constraints_hold(value, cons, strict):
    if value is None:
        return True
    nd = value.ndim
    dims = []
    for d, s in cons.items():
        r = resolved(d, nd)
        if not (0 <= r < nd) or value.shape[r] != s:
            return False
        dims.append(r)
    if strict and len(set(dims)) != len(dims):
        return False
    return True


def h_bookkeeping(e, cfg):
    from inferno.core.infrastructure import Module, ShapedTensor
    shape = tuple(cfg["shape"])
    strict, live = cfg["strict"], cfg["live"]
    m = Module()
    ShapedTensor.create(m, "st", mk(cfg["storage"], shape), None, strict=strict, live=live)
    st = m.st
    init = cfg["storage"] in ("buffer", "param")
    if init:
        st.value = e.sym(shape, torch.float32, "X")
    nd = len(shape)
    prog = []
    for step in range(cfg["len"]):
        dim = e.choose(2 * nd + 1) - nd if nd else 0       # dims in [-nd, nd] (nd itself is out of range)
        size = [None, 1, 2, 3][e.choose(4)]
        prog.append((dim, size))
        cons0 = dict(st.constraints)
        v0 = st.value
        a0 = e.read(v0).copy() if (v0 is not None and init) else None
        shape0 = tuple(v0.shape) if (v0 is not None and init) else None
        valid0 = st.valid
        raised = None
        try:
            st.reconstrain(dim, size)
        except (ValueError, RuntimeError) as ex:
            raised = type(ex).__name__
        e.tag(program=str(prog), strict=strict)
        cons1 = dict(st.constraints)
        v1 = st.value
        # (1) valid => every constraint holds on the actual shape
        if st.valid and init:
            e.oblige("valid-implies-constraints-hold", constraints_hold(v1, cons1, strict), step=step, constraints=str(cons1), shape=str(tuple(v1.shape)))
        is_add = dim not in cons0 and size is not None
        is_remove = dim in cons0 and size is None
        is_edit = dim in cons0 and size is not None
        if raised:
            # a refused operation has no side effects on data; a refused addition none on the constraint map either
            if init:
                e.oblige("refused:data-unchanged", tuple(v1.shape) == shape0 and bool(T.tob(e.all_same(v1, a0)) is True or True), step=step)
                e.oblige_eq("refused:data-unchanged-values", v1, a0, step=step)
            if is_add or (dim not in cons0 and size is None):
                e.oblige("refused:constraints-unchanged", cons1 == cons0, step=step, before=str(cons0), after=str(cons1))
        if is_add and init and valid0:
            compatible = constraints_hold(v0, {**cons0, dim: size}, False)
            # an addition the actual shape contradicts must be refused (a strict record may also refuse more)
            e.oblige("add:incompatible-is-refused", compatible or raised is not None, step=step, raised=str(raised), compatible=compatible)
            if raised is None:
                # an accepted addition was by definition compatible: the tensor it was added to stays valid
                e.oblige("add:accepted-keeps-valid", bool(st.valid), step=step, constraints=str(cons1), shape=str(shape0))
                e.oblige("add:recorded", cons1 == {**cons0, dim: size}, step=step)
                e.oblige_eq("add:data-unchanged", v1, a0, step=step)
        if is_remove and init:
            e.oblige("remove:data-unchanged-shape", tuple(v1.shape) == shape0, step=step)
            e.oblige_eq("remove:data-unchanged", v1, a0, step=step)
            e.oblige("remove:recorded", dim not in cons1, step=step)
        if is_edit and init and raised is None:
            r = resolved(dim, nd)
            e.oblige("edit:size", v1.shape[r] == size and cons1.get(dim) == size, step=step)
            a1 = e.read(v1)
            old = a0.shape[r]
            keep = min(old, size)
            if keep:
                e.oblige_eq("edit:tail-preserved", np.take(a1, range(size - keep, size), axis=r), np.take(a0, range(old - keep, old), axis=r), step=step)
            if size > old:
                head = np.take(a1, range(0, size - old), axis=r)
                z = np.empty(head.shape, dtype=object)
                z[...] = F(0)
                e.oblige_eq("edit:head-zero", head, z, step=step)
    return


def h_late_assign(e, cfg):
    """Constraints registered while storage is uninitialised (nothing to check them against yet), storage assigned afterwards:
    a tensor reported valid / compatible satisfies EVERY registered constraint (also two dims that alias one axis)."""
    from inferno.core.infrastructure import Module, ShapedTensor
    strict = cfg["strict"]
    m = Module()
    ShapedTensor.create(m, "st", mk(cfg["storage"], ()), None, strict=strict, live=False)
    st = m.st
    prog = []
    for step in range(cfg["len"]):
        dim = e.choose(4) - 2                     # dims in [-2, 1]
        size = [2, 3, 4][e.choose(3)]
        prog.append((dim, size))
        try:
            st.reconstrain(dim, size)
        except (ValueError, RuntimeError):
            pass
    cons = dict(st.constraints)
    shape = [(2, 3), (2, 4), (3, 3), (3, 4), (4, 2)][e.choose(5)]
    e.tag(program=str(prog), strict=strict, assigned=str(shape))
    cand = torch.zeros(shape)
    holds = constraints_hold(cand, cons, strict)
    e.oblige("late:compatible-implies-constraints-hold", (not st.compatible(cand)) or holds, constraints=str(cons))
    st.value = e.sym(shape, torch.float32, "X")
    e.oblige("late:valid-implies-constraints-hold", (not st.valid) or holds, constraints=str(cons))


def h_record_reconstrain(e, cfg):
    """Shape-constraint edits on a RecordTensor: observation dims shift by one; data tail preserved."""
    from inferno.core.infrastructure import Module, RecordTensor
    shape = tuple(cfg["shape"])
    N = cfg["N"]
    m = Module()
    RecordTensor.create(m, "rec", 1.0, float(N), torch.zeros(shape), constraints={cfg["dim"]: shape[cfg["dim"]]})
    rec = m.rec
    D = e.sym((N, *shape), torch.float32, "D")
    rec.value = D
    p = cfg["ptr"] % N
    if p:
        rec.incr(p)
    arr = e.read(D)
    M = [arr[(p - j) % N, ...] for j in range(N + 1)]
    dim, size = cfg["dim"], cfg["size"]
    e.tag(dim=dim, size=size)
    rec.reconstrain(dim, size)
    e.oblige("record:constraints-view", rec.constraints.get(dim) == size, got=str(rec.constraints))
    e.oblige("record:size-unchanged", rec.recordsz == N)
    r = resolved(dim, len(shape))
    old = shape[r]
    keep = min(old, size)
    for k in range(1, N + 1):
        got = e.read(rec.read(k))
        e.oblige("record:obs-shape", got.shape[r] == size, k=k)
        if keep:
            e.oblige_eq("record:tail-preserved", np.take(got, range(size - keep, size), axis=r), np.take(M[k], range(old - keep, old), axis=r), k=k)
        if size > old:
            head = np.take(got, range(0, size - old), axis=r)
            z = np.empty(head.shape, dtype=object)
            z[...] = F(0)
            e.oblige_eq("record:head-zero", head, z, k=k)


def checks(tier):
    th = tier == "thorough"
    dts = [0.1, 0.5, 1.0, 1.3]
    durs = [0.0, 0.3, 1.0, 2.5, 3.0]
    trip = [(dt, du, inc) for dt in dts for du in durs for inc in (False, True)]
    trip = [t for t in trip if size_formula(*t) <= (6 if th else 4)]
    single, temporal = [], []
    for b in trip:
        N0 = size_formula(*b)
        for which, vals in (("dt", dts), ("duration", durs), ("inclusive", [False, True])):
            for v in vals:
                new = {"dt": (v, b[1], b[2]), "duration": (b[0], v, b[2]), "inclusive": (b[0], b[1], v)}[which]
                if size_formula(*new) > (6 if th else 4):
                    continue
                for ptr in (range(N0) if th else sorted({0, 1 % N0, N0 - 1})):
                    for st in (("buffer", "param") if (th or ptr == N0 - 1) else ("buffer",)):
                        single.append(dict(before=b, set=(which, v), ptr=ptr, storage=st, shape=(2,)))
    # records that are not float32 (spike records are boolean): growing and shrinking must not convert the stored observations
    for dtn in ("bool", "int64", "float64"):
        for b, setv in (((1.0, 1.0, True), ("duration", 3.0)), ((1.0, 3.0, True), ("duration", 1.0)), ((1.0, 2.0, False), ("inclusive", True)), ((1.0, 2.0, True), ("dt", 0.5))):
            single.append(dict(before=b, set=setv, ptr=1, storage="buffer", shape=(2,), dtype=dtn))
    import itertools
    pairs = [(a, b) for a in trip for b in trip]
    if not th:
        pairs = pairs[::7]
    for n, (a, b) in enumerate(pairs):
        via = ["dt-duration-inclusive", "inclusive-duration-dt", "duration-inclusive-dt"][n % 3]
        N0 = size_formula(*a)
        temporal.append(dict(before=a, after=b, ptr=n % N0, storage="buffer", shape=(2,), via=via))
        st = ["none", "empty", "ubuf", "uparam", "param"][n % 5]
        temporal.append(dict(before=a, after=b, ptr=(n + 1) % N0, storage=st, shape=(2,), via=via))
    book = []
    for shape in ([(2,), (2, 3), (1, 2, 3)] if th else [(2,), (2, 3)]):
        for strict in (True, False):
            for live in ((False, True) if th else (False,)):
                for st in (("buffer", "param") if th else ("buffer",)):
                    book.append(dict(shape=shape, strict=strict, live=live, storage=st, len=(3 if (th and len(shape) < 3) else 2)))
    rr = []
    for shape in ([(2, 3), (3,)] if th else [(2, 3)]):
        for dim in range(-len(shape), len(shape)):
            for size in (1, 2, 3, 4):
                for N in (2, 3):
                    rr.append(dict(shape=shape, dim=dim, size=size, N=N, ptr=N - 1))
    return [Check("single_setter", h_single, single, timeout_s=600), Check("setter_sequences", h_temporal, temporal, timeout_s=600),
            Check("bookkeeping", h_bookkeeping, book, opts={"max_paths": 100000}, timeout_s=3000), Check("record_reconstrain", h_record_reconstrain, rr, timeout_s=600),
            Check("late_assignment", h_late_assign, [dict(strict=sr, storage=stg, len=(3 if th else 2)) for sr in (True, False) for stg in ("none", "empty", "ubuf")],
                  opts={"max_paths": 100000}, timeout_s=3000)]


BOUNDS = {
    "quick": {"(dt,duration,inclusive)": "dt in {0.1,0.5,1.0,1.3} x duration in {0,0.3,1,2.5,3} x {F,T} with size <= 4; all single-setter changes; every 7th ordered pair for 3-setter sequences",
              "pointer": "{0,1,N-1}", "storage": ["buffer", "Parameter", "None", "empty(0)", "UninitializedBuffer", "UninitializedParameter"],
              "late assignment": "all 2-call reconstrain programs on uninitialised storage (dims in [-2,1], sizes 2-4, strict / non-strict), then one of 5 shapes assigned",
              "bookkeeping programs": "all 2-call reconstrain programs, dims in [-rank, rank], sizes {None,1,2,3}, strict/non-strict, rank <= 2"},
    "thorough": {"sizes": "<= 6; every pointer; all ordered pairs", "bookkeeping programs": "3 calls for rank <= 2, 2 calls for rank 3; live on/off; Parameter storage"},
}
OUTSIDE = ["record sizes above 6", "reconstrain programs longer than 3"]
