"""C04 — synapse currents equal the impulse-response sum; delayed reads see the past.

(a) T steps from a cleared synapse with symbolic input spikes (indicators) and injected
currents: the reported current equals the documented kernel sum, the spike record equals the
input.  (b) one step from an ARBITRARY planted history (every pointer position): the new value
follows the documented recurrence and `*_at(selector)` with a SYMBOLIC per-element selector
returns the history value k steps ago on the grid, the synapse's interpolation between grid
points, and the overbound value (or the limit value when None) beyond the supported delay.
"""
import math
from fractions import Fraction as F

import numpy as np
import torch

from symtorch.run import Check
from symtorch import terms as T
from symtorch.engine import round_to_dtype, obj

PROPERTY = "C04"


def K(x):
    return round_to_dtype(F(float(x)), torch.float32)


SYN = {
    "delta": ("DeltaCurrent", dict(spike_charge=1.5)),
    "deltaplus": ("DeltaPlusCurrent", dict(spike_charge=1.5)),
    "single": ("SingleExponentialCurrent", dict(spike_charge=1.5, time_constant=4.0)),
    "double": ("DoubleExponentialCurrent", dict(spike_charge=1.5, tc_decay=6.0, tc_rise=2.0)),
}


def build(cfg):
    import inferno.neural as neural
    name, hp = SYN[cfg["syn"]]
    kw = dict(hp)
    modekey = "interp_mode" if cfg["syn"] in ("delta", "deltaplus") else "spike_interp_mode"
    kw[modekey] = cfg["interp"]
    co, so = cfg["overbound"]
    if cfg.get("via_setter"):
        # the same configuration reached through property assignment after construction (step time, and the spike charge where it is assignable)
        kw2 = dict(kw)
        if "spike_charge" in kw2:
            kw2["spike_charge"] = kw2["spike_charge"] * 3.0      # (not the same factor as dt: Q / dt must change)
        syn = getattr(neural, name)(tuple(cfg["shape"]), cfg["dt"] * 2.0, delay=cfg["delay"], interp_tol=cfg["tol"], current_overbound=co, spike_overbound=so,
                                    batch_size=cfg["B"], inplace=cfg["inplace"], **kw2)
        syn.dt = cfg["dt"]
        if "spike_charge" in kw:
            syn.spike_charge = kw["spike_charge"]          # a plain attribute of every shipped synapse
        if cfg["delay"]:
            syn.delay = cfg["delay"]
        return syn
    return getattr(neural, name)(tuple(cfg["shape"]), cfg["dt"], delay=cfg["delay"], interp_tol=cfg["tol"], current_overbound=co, spike_overbound=so,
                                 batch_size=cfg["B"], inplace=cfg["inplace"], **kw)


def coeffs(cfg):
    dt = cfg["dt"]
    hp = SYN[cfg["syn"]][1]
    Q = hp["spike_charge"]
    if cfg["syn"] in ("delta", "deltaplus"):
        return dict(gain=K(Q / dt))
    if cfg["syn"] == "single":
        tau = hp["time_constant"]
        return dict(alpha=K(math.exp(-dt / tau)), gain=K(Q / tau), tau=tau)
    td, tr = hp["tc_decay"], hp["tc_rise"]
    return dict(alpha_d=K(math.exp(-dt / td)), alpha_r=K(math.exp(-dt / tr)), gain=K(Q / (td - tr)), td=td, tr=tr)


def step_oracle(cfg, c, prev, x, inj):
    """prev: dict of previous-state element(s); x: spike (0/1 numeric); returns new dict with 'cur'."""
    s = cfg["syn"]
    if s == "delta":
        return dict(cur=T.mul(c["gain"], x))
    if s == "deltaplus":
        v = T.mul(c["gain"], x)
        for j in inj:
            v = T.add(v, j)
        return dict(cur=v)
    if s == "single":
        return dict(cur=T.add(T.mul(prev["cur"], c["alpha"]), T.mul(c["gain"], x)))
    p = T.add(T.mul(prev["pos"], c["alpha_d"]), T.mul(c["gain"], x))
    n = T.add(T.mul(prev["neg"], c["alpha_r"]), T.mul(c["gain"], x))
    return dict(pos=p, neg=n, cur=T.sub(p, n))


def numeric(v):
    return T.as_num(v)


def h_run(e, cfg):
    """T steps from clear: closed-form kernel sums; spike record = input; in-place == out-of-place by oracle."""
    syn = build(cfg)
    c = coeffs(cfg)
    B, shape, Tn = cfg["B"], tuple(cfg["shape"]), cfg["T"]
    bs = (B, *shape)
    e.tag(syn=cfg["syn"], inplace=cfg["inplace"])
    xs, injs = [], []
    if cfg.get("dirty"):
        # run on other data, then clear(): must behave as fresh
        for j in range(2):
            syn(e.sym(bs, torch.bool, f"junk{j}", ind=True))
        syn.clear()
    for t in range(Tn):
        x = e.sym(bs, torch.bool, f"x{t}", ind=True)
        xs.append(e.read(x))
        if cfg["syn"] == "deltaplus":
            inj = e.sym(bs, torch.float32, f"inj{t}", lo=-10, hi=10)
            injs.append(e.read(inj))
            out = syn(x, inj)
        else:
            out = syn(x)
        exp = np.empty(bs, dtype=object)
        for pos in np.ndindex(*bs):
            if cfg["syn"] == "delta":
                v = T.mul(c["gain"], numeric(xs[t][pos]))
            elif cfg["syn"] == "deltaplus":
                v = T.add(T.mul(c["gain"], numeric(xs[t][pos])), injs[t][pos])
            elif cfg["syn"] == "single":
                v = 0
                for s in range(t + 1):
                    v = T.add(v, T.mul(T.mul(c["gain"], c["alpha"] ** (t - s)), numeric(xs[s][pos])))
            else:
                v = 0
                for s in range(t + 1):
                    v = T.add(v, T.mul(T.mul(c["gain"], c["alpha_d"] ** (t - s) - c["alpha_r"] ** (t - s)), numeric(xs[s][pos])))
            exp[pos] = v
        e.oblige_eq("run:forward-return", out, exp, split=True, step=t)
        e.oblige_eq("run:current", syn.current, exp, split=True, step=t)
        e.oblige_eq("run:spike", syn.spike, xs[t], split=True, step=t)
        if cfg["delay"] > 0:
            # grid reads of the past through the public delayed interface
            N = syn.spike_.recordsz
            for k in range(min(N, 3)):
                sel = torch.full((*bs, 1), k * cfg["dt"])
                got = syn.spike_at(sel)
                want = xs[t - k] if t - k >= 0 else np.full(bs, False, dtype=object)
                e.oblige_eq("run:spike_at-grid", got, want.reshape(*bs, 1), split=True, step=t, k=k)


def plant(e, syn, cfg, ptr):
    """Arbitrary symbolic history in every record of the synapse; returns per-record history lists H[j] (j steps ago)."""
    B, shape = cfg["B"], tuple(cfg["shape"])
    recs = {}
    names = {"delta": ["spike_"], "deltaplus": ["spike_", "current_"], "single": ["spike_", "current_"], "double": ["spike_", "pos_current_", "neg_current_"]}[cfg["syn"]]
    for nm in names:
        rec = getattr(syn, nm)
        N = rec.recordsz
        if nm == "spike_":
            D = e.sym((N, B, *shape), torch.bool, "S", ind=True)
        else:
            D = e.sym((N, B, *shape), torch.float32, "H" + nm[:3], lo=-10, hi=10)
        rec.value = D
        if ptr:
            rec.incr(ptr)
        arr = e.read(D)
        recs[nm] = [arr[(ptr - 1 - j) % N, ...] for j in range(N)]   # H[j] = value j steps ago (j = 0 latest)
    return recs


def interp_between(mode, older, newer, sa, dt, tau=None):
    if mode == "previous":
        return older
    if mode == "nearest":
        return T.ite(T.gt(T.div(sa, dt), F(1, 2)), newer, older)
    if mode == "expdecay":
        return T.mul(older, T.exp_(T.div(T.neg(sa), K(tau))))
    raise AssertionError(mode)


def at_oracle(H, s, dt, delay, tol, mode, overbound, tau=None, transform=None):
    """Value of a delayed read of history H (list, H[j] = element j steps ago) at selector element s."""
    N = len(H)
    kd, kdelay, ktol = K(dt), K(delay), K(tol)
    tr = transform or (lambda v: v)
    if N == 1:
        res, sb = tr(H[0]), 0
    else:
        sb = T.minimum(T.maximum(s, 0), kdelay)
        res = None
        # on-grid k, else strictly between k and k+1
        for k in reversed(range(N - 1)):
            sa = T.sub(kd * (k + 1), sb)
            val = tr(interp_between(mode, H[k + 1], H[k], sa, kd, tau))
            cond = T.band(T.tob(T.gt(sb, T.add(kd * k, ktol))), T.tob(T.lt(sb, T.sub(kd * (k + 1), ktol))))
            res = val if res is None else T.ite(cond, val, res)
        for k in reversed(range(N)):
            cond = T.le(T.abs_(T.sub(kd * k, sb)), ktol)
            res = tr(H[k]) if res is None else T.ite(cond, tr(H[k]), res)
    if overbound is None:
        return res
    inb = T.le(T.abs_(T.sub(s, sb)), ktol)
    ob = overbound if isinstance(overbound, bool) else K(overbound)
    return T.ite(inb, res, ob)


def h_delayed(e, cfg):
    syn = build(cfg)
    c = coeffs(cfg)
    B, shape, dt, delay, tol = cfg["B"], tuple(cfg["shape"]), cfg["dt"], cfg["delay"], cfg["tol"]
    bs = (B, *shape)
    co, so = cfg["overbound"]
    e.tag(syn=cfg["syn"], inplace=cfg["inplace"], tol_positive=(tol > 0), spike_overbound=str(so), current_overbound=str(co))
    recs = plant(e, syn, cfg, cfg["ptr"])
    N = syn.spike_.recordsz
    # one step from the planted state
    x = e.sym(bs, torch.bool, "x", ind=True)
    xa = e.read(x)
    inj = None
    if cfg["syn"] == "deltaplus":
        inj = e.sym(bs, torch.float32, "inj", lo=-10, hi=10)
        out = syn(x, inj)
    else:
        out = syn(x)
    new = {k: np.empty(bs, dtype=object) for k in ("cur", "pos", "neg")}
    for pos in np.ndindex(*bs):
        prev = {}
        if cfg["syn"] == "single":
            prev["cur"] = recs["current_"][0][pos]
        if cfg["syn"] == "double":
            prev["pos"], prev["neg"] = recs["pos_current_"][0][pos], recs["neg_current_"][0][pos]
        r = step_oracle(cfg, c, prev, numeric(xa[pos]), [e.read(inj)[pos]] if inj is not None else [])
        for k, v in r.items():
            new[k][pos] = v
    e.oblige_eq("step:current", out, new["cur"], split=True)
    e.oblige_eq("step:spike", syn.spike, xa, split=True)
    # histories after the step (ring keeps the N newest)
    HS = ([xa] + recs["spike_"])[:N]
    if cfg["syn"] in ("deltaplus", "single"):
        HC = ([new["cur"]] + recs["current_"])[:N]
    if cfg["syn"] == "double":
        HP = ([new["pos"]] + recs["pos_current_"])[:N]
        HN = ([new["neg"]] + recs["neg_current_"])[:N]
    # delayed reads with a symbolic selector
    D = cfg["D"] if N > 1 else None     # an undelayed synapse takes selectors without the trailing D dimension
    sshape = (*bs, D) if D else bs
    sel = e.sym(sshape, torch.float32, "sel", lo=-1, hi=delay + 2 * dt)
    sa = e.read(sel)
    mode = cfg["interp"]
    got_s = syn.spike_at(sel)
    got_c = syn.current_at(sel)
    exp_s, exp_c = np.empty(sshape, dtype=object), np.empty(sshape, dtype=object)
    gain = c["gain"]
    for pos in np.ndindex(*sshape):
        p = pos[:-1] if D else pos
        s = sa[pos]
        hs = [h[p] for h in HS]
        if cfg["syn"] == "delta":
            exp_s[pos] = at_oracle(hs, s, dt, delay, tol, mode, so)
            exp_c[pos] = at_oracle(hs, s, dt, delay, tol, mode, co, transform=lambda v: T.mul(numeric(v), gain))
        elif cfg["syn"] == "deltaplus":
            exp_s[pos] = at_oracle(hs, s, dt, delay, tol, mode, so)
            exp_c[pos] = at_oracle([h[p] for h in HC], s, dt, delay, tol, mode, co)
        elif cfg["syn"] == "single":
            exp_s[pos] = at_oracle(hs, s, dt, delay, tol, mode, so)
            exp_c[pos] = at_oracle([h[p] for h in HC], s, dt, delay, tol, "expdecay", co, tau=c["tau"])
        else:
            exp_s[pos] = at_oracle(hs, s, dt, delay, tol, mode, so)
            pv = at_oracle([h[p] for h in HP], s, dt, delay, tol, "expdecay", None, tau=c["td"])
            nv = at_oracle([h[p] for h in HN], s, dt, delay, tol, "expdecay", None, tau=c["tr"])
            v = T.sub(pv, nv)
            if co is not None:
                sb = T.minimum(T.maximum(s, 0), K(delay)) if N > 1 else 0
                v = T.ite(T.le(T.abs_(T.sub(s, sb)), K(tol)), v, K(co))
            exp_c[pos] = v
    e.oblige_eq("at:spike", got_s, exp_s, split=True)
    e.oblige("at:spike-dtype", got_s.dtype == torch.bool)
    e.oblige_eq("at:current", got_c, exp_c, split=True)


def checks(tier):
    th = tier == "thorough"
    run, dl = [], []
    for syn in SYN:
        for dt in ([1.0, 0.5, 1.3] if th else [1.0, 1.3]):
            for dmul in ([0, 1, 2, 2.5] if th else [0, 2, 2.5]):
                delay = dmul * dt
                for B in ([1, 2] if th else [2]):
                    for inplace in (False, True):
                        for dirty in ((False, True) if th else (inplace,)):
                            run.append(dict(syn=syn, dt=dt, delay=delay, B=B, shape=(2,), inplace=inplace, T=(6 if th else 4), interp="previous", tol=0.0,
                                            overbound=(0.0, False), dirty=dirty))
                for interp in ("previous", "nearest"):
                    for tol in (0.0, 1e-3):
                        for ob in ([(0.0, False), (0.7, True), (None, None)]):
                            if not th and (dmul == 2.5 and interp == "nearest" and tol == 0.0):
                                continue
                            N = max(math.ceil(delay / dt) + 1, 1)
                            for ptr in (range(N) if th else sorted({0, N - 1})):
                                for inplace in ((False, True) if th else (bool(ptr % 2),)):
                                    dl.append(dict(syn=syn, dt=dt, delay=delay, B=1, shape=(2,), inplace=inplace, interp=interp, tol=tol, overbound=ob, ptr=ptr,
                                                   D=(2 if th else 1)))
    # the same synapse reached by assigning dt / spike charge / delay after construction
    for syn in SYN:
        for dt, dmul in ((1.3, 0), (1.0, 2)) + (((0.5, 2.5),) if th else ()):
            run.append(dict(syn=syn, dt=dt, delay=dmul * dt, B=2, shape=(2,), inplace=False, T=4, interp="previous", tol=0.0, overbound=(0.0, False), dirty=False, via_setter=True))
    o = {"div_policy": "xr", "query_timeout_ms": 120000}
    return [Check("run", h_run, run, opts=o, timeout_s=900), Check("delayed", h_delayed, dl, opts=o, timeout_s=900)]


BOUNDS = {
    "quick": {"synapses": 4, "dt": [1.0, 1.3], "delay": ["0", "2dt", "2.5dt"], "interp": ["previous", "nearest"], "tol": [0, 1e-3], "overbound": ["(0.0, False)", "(0.7, True)", "(None, None)"],
              "batch": [1, 2], "shape": "(2,)", "steps": "4 from clear (closed form) + 1 from an arbitrary planted history; also with dt, spike charge and delay assigned after construction", "selector": "symbolic per element in [-1, delay+2dt]"},
    "thorough": {"synapses": 4, "dt": [1.0, 0.5, 1.3], "delay": ["0", "dt", "2dt", "2.5dt"], "steps": "6 from clear + 1 from arbitrary history, every pointer", "selector": "symbolic, D=2"},
}
OUTSIDE = ["float32 rounding of the recurrences (constants are the float32 numbers the tensor computation sees)", "time constants other than the two documented-valid sets"]
