"""C06 — a connection delay is a pure per-synapse time shift.

Two identically parameterised connections, delayed D (maximum delay `max`) and undelayed U, are
fed the same symbolic input history.  The per-synapse delay tensor is itself SYMBOLIC (any real
in [0, max]: grid points and everything between them), the weights are symbolic.  At every step
    D.forward == sum_i w_oi * (U's synaptic current of input i read d_oi ago)
where "read d ago" is the history value k steps back on the grid and the synapse's documented
interpolation between grid points; before the start of the simulation the history is the
resting state (zero current, no spike).  D.syncurrent / D.synspike show the same shifted
values; delay == 0 is indistinguishable from no delay.
"""
import math
from fractions import Fraction as F

import numpy as np
import torch

from symtorch.run import Check
from symtorch import terms as T
from symtorch.engine import round_to_dtype

from harness.C04 import at_oracle, K

PROPERTY = "C06"

SYN = {
    "delta": lambda n: n.DeltaCurrent.partialconstructor(1.5, interp_mode="previous"),
    "delta-nearest": lambda n: n.DeltaCurrent.partialconstructor(1.5, interp_mode="nearest"),
    "deltaplus": lambda n: n.DeltaPlusCurrent.partialconstructor(1.5, interp_mode="nearest"),
    "single": lambda n: n.SingleExponentialCurrent.partialconstructor(1.5, 4.0),
    "double": lambda n: n.DoubleExponentialCurrent.partialconstructor(1.5, 6.0, 2.0),
}


def interp_modes(syn):
    """(current interpolation mode, tau(s), spike interpolation mode) of the synapse class as documented."""
    if syn == "delta":
        return "previous", None, "previous"
    if syn == "delta-nearest":
        return "nearest", None, "nearest"
    if syn == "deltaplus":
        return "nearest", None, "nearest"
    if syn == "single":
        return "expdecay", 4.0, "previous"
    return "double", (6.0, 2.0), "previous"


def build(cfg, delayed):
    import inferno.neural as neural
    kind, B, dt = cfg["kind"], cfg["B"], cfg["dt"]
    delay = cfg["max"] if delayed else None
    ctor = SYN[cfg["syn"]](neural)
    if kind == "dense":
        return neural.LinearDense((2,), (2,), dt, synapse=ctor, delay=delay, batch_size=B, bias=cfg["bias"])
    if kind == "direct":
        return neural.LinearDirect((2,), dt, synapse=ctor, delay=delay, batch_size=B, bias=cfg["bias"])
    if kind == "lateral":
        return neural.LinearLateral((2,), dt, synapse=ctor, delay=delay, batch_size=B, bias=cfg["bias"])
    H, W, kh, kw, Cn = (tuple(cfg.get("geom", (2, 2, 1, 2))) + (1,))[:5]
    return neural.Conv2D(H, W, Cn, 2, dt, (kh, kw), synapse=ctor, delay=delay, batch_size=B, bias=cfg["bias"])


def h_shift(e, cfg):
    kind, B, dt, mx, syn = cfg["kind"], cfg["B"], cfg["dt"], cfg["max"], cfg["syn"]
    e.tag(kind=kind, syn=syn, delays=cfg["delays"])
    D, U = build(cfg, True), build(cfg, False)
    W = e.sym(tuple(U.weight.shape), torch.float32, "W", lo=-3, hi=3)
    D.weight = W.clone()
    U.weight = W.clone()
    wa = e.read(D.weight)     # lateral: already masked
    ba = None
    if cfg["bias"]:
        bv = e.sym(tuple(U.bias.shape), torch.float32, "b", lo=-3, hi=3)
        D.bias = bv.clone(); U.bias = bv.clone()
        ba = e.read(bv)
    dshape = tuple(D.delay.shape)
    if cfg["delays"] == "zero":
        da = np.zeros(dshape, dtype=object)
        da[...] = F(0)
    elif cfg["delays"] == "concrete":
        # delays given the way a user writes them: Python-float multiples k * dt, stored in the float32 delay parameter; the index arithmetic on
        # them is concrete and runs on the real float32 kernels, so the snapping of delay / dt onto the grid is exercised bit-exactly.
        # The oracle reads exactly k steps back ("each a multiple of the step time").
        ks = np.resize(np.array(cfg["steps"]), dshape)
        D.delay = torch.tensor((ks * dt).tolist(), dtype=torch.float32)
        da = np.empty(dshape, dtype=object)
        for pos in np.ndindex(*dshape):
            da[pos] = K(dt) * int(ks[pos]) if not (kind == "lateral" and pos[0] == pos[1]) else F(0)     # a lateral connection masks its self-delays to 0
    else:
        # never above the configured maximum; where the maximum is not a float32 number (3 * 1.3) a hair below it, because the float32
        # delay parameter rounds values next to it to float32(max) > max, which the synapse rightly treats as out of range
        dl = e.sym(dshape, torch.float32, "d", lo=0, hi=(K(mx) if K(mx) == F(mx) else min(K(mx), F(mx)) - F(1, 1000)))
        D.delay = dl
        da = e.read(D.delay)
        if cfg["delays"] == "grid":
            n = math.ceil(mx / dt)
            for v in e.read(dl).reshape(-1):
                c = False
                for k in range(n + 1):
                    if K(dt) * k <= K(mx):
                        c = T.bor(c, T.tob(T.eq(v, K(dt) * k)))
                e.assume(c)
    ishape = tuple(U.inshape)
    cmode, tau, smode = interp_modes(syn)
    hist_cur, hist_spk, hist_pos, hist_neg = [], [], [], []
    for t in range(cfg["T"] + cfg.get("after_clear", 0)):
        if t == cfg["T"]:
            # "... or the last clear": both connections are cleared, history restarts from the resting state
            D.clear(); U.clear()
            hist_cur, hist_spk, hist_pos, hist_neg = [], [], [], []
            e.tag(phase="after-clear")
        if cfg.get("reassign") is not None and t == cfg["reassign"]:
            # the learned delays are re-assigned through the property while the connection is running (as an updater does)
            dl2 = e.sym(dshape, torch.float32, "d2", lo=0, hi=(K(mx) if K(mx) == F(mx) else min(K(mx), F(mx)) - F(1, 1000)))
            D.delay = dl2
            da = e.read(D.delay)
            e.tag(phase="after-reassigning-delays")
        x = e.sym((B, *ishape), torch.bool, f"x{t}", ind=True)
        args = (x,)
        if syn == "deltaplus":
            args = (x, e.sym((B, *ishape), torch.float32, f"j{t}", lo=-5, hi=5))
        if kind == "conv":
            args = tuple(a.float() for a in args)
        outD, outU = D(*args), U(*args)
        hist_cur.insert(0, e.read(U.synapse.current))
        hist_spk.insert(0, e.read(U.synapse.spike))
        if syn == "double":
            hist_pos.insert(0, e.read(U.synapse.pos_current))
            hist_neg.insert(0, e.read(U.synapse.neg_current))
        N = D.synapse.spike_.recordsz
        zero_c = np.zeros(hist_cur[0].shape, dtype=object); zero_c[...] = F(0)
        zero_s = np.zeros(hist_spk[0].shape, dtype=object); zero_s[...] = False

        def H(h, z):
            return (h + [z] * N)[:N]

        def shifted_current(pos_syn, d):
            if cmode == "double":
                p = at_oracle([h[pos_syn] for h in H(hist_pos, zero_c)], d, dt, mx, 0.0, "expdecay", None, tau=tau[0])
                n_ = at_oracle([h[pos_syn] for h in H(hist_neg, zero_c)], d, dt, mx, 0.0, "expdecay", None, tau=tau[1])
                return T.sub(p, n_)
            if syn.startswith("delta") and syn != "deltaplus":
                g = K(1.5 / dt)
                return at_oracle([h[pos_syn] for h in H(hist_spk, zero_s)], d, dt, mx, 0.0, cmode, None, transform=lambda v: T.mul(T.as_num(v), g))
            return at_oracle([h[pos_syn] for h in H(hist_cur, zero_c)], d, dt, mx, 0.0, cmode, None, tau=tau)

        def shifted_spike(pos_syn, d):
            return at_oracle([h[pos_syn] for h in H(hist_spk, zero_s)], d, dt, mx, 0.0, smode, None)

        # expected output of D
        if kind in ("dense", "lateral"):
            exp = np.empty((B, 2), dtype=object)
            sc = np.empty((B, 2, 2), dtype=object)
            ss = np.empty((B, 2, 2), dtype=object)
            for b in range(B):
                for o in range(2):
                    v = F(0)
                    for i in range(2):
                        sc[b, i, o] = shifted_current((b, i), da[o, i])
                        ss[b, i, o] = shifted_spike((b, i), da[o, i])
                        v = T.add(v, T.mul(wa[o, i], sc[b, i, o]))
                    exp[b, o] = T.add(v, ba[o]) if ba is not None else v
        elif kind == "direct":
            exp = np.empty((B, 2), dtype=object)
            sc = np.empty((B, 2, 1), dtype=object)
            ss = np.empty((B, 2, 1), dtype=object)
            for b in range(B):
                for i in range(2):
                    sc[b, i, 0] = shifted_current((b, i), da[i])
                    ss[b, i, 0] = shifted_spike((b, i), da[i])
                    v = T.mul(wa[i], sc[b, i, 0])
                    exp[b, i] = T.add(v, ba[i]) if ba is not None else v
        else:  # conv: 1 input channel, F=2 filters; synapse shape (N = kh*kw, L = Ho*Wo) in unfold order n = a*kw + b
            H_, W_, kh, kw, Cn = (tuple(cfg.get("geom", (2, 2, 1, 2))) + (1,))[:5]
            Ho, Wo = H_ - kh + 1, W_ - kw + 1
            Fn, Nn, L = 2, Cn * kh * kw, Ho * Wo          # unfold order of the synapse rows: n = (c * kh + a) * kw + b
            exp = np.empty((B, Fn, Ho, Wo), dtype=object)
            sc = np.empty((B, Nn, L, Fn), dtype=object)
            ss = np.empty((B, Nn, L, Fn), dtype=object)
            for b in range(B):
                for f in range(Fn):
                    for l in range(L):
                        v = F(0)
                        for cc in range(Cn):
                            for a in range(kh):
                                for bb in range(kw):
                                    n_ = (cc * kh + a) * kw + bb
                                    d = da[f, cc, a, bb]
                                    sc[b, n_, l, f] = shifted_current((b, n_, l), d)
                                    ss[b, n_, l, f] = shifted_spike((b, n_, l), d)
                                    v = T.add(v, T.mul(wa[f, cc, a, bb], sc[b, n_, l, f]))
                        exp[b, f, l // Wo, l % Wo] = T.add(v, ba[f]) if ba is not None else v
        e.oblige_eq("shift:forward", outD, exp, split=True, step=t)
        if cfg["delays"] == "zero":
            e.oblige_eq("zero-delay:same-as-undelayed", outD, e.read(outU), step=t)
        e.oblige_eq("shift:syncurrent", D.syncurrent, sc, split=True, step=t)
        e.oblige_eq("shift:synspike", D.synspike, ss, split=True, step=t)

def checks(tier):
    full = tier == "thorough"
    cfgs = []
    for kind in ("dense", "direct", "lateral", "conv"):
        # the thorough tier widens the symbolic-delay grid for the dense and direct connections only (measured: with every connection
        # type widened a handful of conv / double-exponential configurations run for more than 40 minutes each); the concrete-delay,
        # re-assignment and geometry variants below are widened for all types
        th = full and kind in ("dense", "direct")
        for syn in SYN:
            for dt in (1.0, 1.3):
                for mmul in ((1, 2, 3) if th else (2,)):
                    for delays in ("any", "grid", "zero"):
                        if not th and delays == "grid" and dt == 1.0:
                            continue
                        if not th and syn == "delta-nearest" and kind != "dense":
                            continue
                        for B in ((1, 2) if (th and kind == "dense" and syn != "double") else (1,)):      # (double-exponential, batch 2, max 3*1.3: z3 unknown after 180 s)
                            ac = 3 if th else (2 if (delays in ("zero", "grid") or kind == "dense") else 0)
                            cfgs.append(dict(kind=kind, syn=syn, dt=dt, max=mmul * dt, delays=delays, B=B, bias=(kind == "dense"), T=(4 if th else 3), after_clear=ac))
                            # (single-exponential with free real delays on the 2x2 kernel: one obligation sits at the edge of the 180 s query
                            # time-out - decided in most runs, "unknown" in one - so it is explored with grid delays only)
                            if kind == "conv" and delays != "zero" and dt == 1.3 and (syn == "delta" or (syn == "single" and delays == "grid")) or (
                                    kind == "conv" and delays != "zero" and th and not (syn == "single" and delays == "any")):
                                # a kernel with both sides > 1: the flattening order of the per-synapse delays matters
                                cfgs.append(dict(kind=kind, syn=syn, dt=dt, max=mmul * dt, delays=delays, B=B, bias=False, T=(3 if th else 2), geom=(2, 3, 2, 2)))
                                if syn == "delta" or th:
                                    # two input channels: the (c kh kw) order of the per-synapse delays / unfolded patches
                                    cfgs.append(dict(kind=kind, syn=syn, dt=dt, max=mmul * dt, delays=delays, B=B, bias=False, T=(3 if th else 2), geom=(2, 2, 1, 2, 2)))
    th = full
    # delays re-assigned after the connection has been stepped
    for kind in ("dense", "direct", "lateral", "conv"):
        for syn in (("delta", "single") if th else ("delta",)):
            cfgs.append(dict(kind=kind, syn=syn, dt=1.3, max=2 * 1.3, delays="any", B=1, bias=False, T=4, after_clear=0, reassign=2))
    # concrete Python-float delays k * dt at step times float32 cannot represent (delay / dt lands an ulp off the integer)
    for kind in ("dense", "direct", "lateral", "conv"):
        for syn in (tuple(SYN) if th else ("delta", "single")):
            for dt, mmul, steps in (((1.3, 3, (3, 1, 0, 2)), (1.3, 7, (7, 3, 5, 0)), (0.1, 3, (3, 1, 2, 3)), (1.1, 5, (5, 3, 0, 4))) if th else ((1.3, 3, (3, 1, 0, 2)),)):
                if not th and kind in ("lateral", "conv") and syn != "delta":
                    continue
                if dt == 1.1 and syn in ("single", "double"):
                    continue      # (measured: candidates that do not reproduce - the exponential interpolation at dt = 1.1 differs from the exact-real oracle only in float noise)
                cfgs.append(dict(kind=kind, syn=syn, dt=dt, max=mmul * dt, delays="concrete", steps=steps, B=1, bias=False, T=(mmul + 2), after_clear=0))
    # KNOWN FINDING (known_findings.json, C06-float32-snap-k6): delay = 6 * 1.3 at the default tolerance 0
    cfgs.append(dict(kind="dense", syn="delta", dt=1.3, max=6 * 1.3, delays="concrete", steps=(6, 3, 0, 2), B=1, bias=False, T=8, after_clear=0, known="k6-dt1.3"))
    o = {"div_policy": "xr", "query_timeout_ms": 180000}
    return [Check("shift", h_shift, cfgs, opts=o, timeout_s=2400)]


BOUNDS = {
    "quick": {"connections": ["dense 2->2", "direct 2", "lateral 2", "conv 1x2x2 k(1,2) F=2; 1x2x3 k(2,2); 2x2x2 k(1,2) (two channels)"], "synapses": 5, "dt": [1.0, 1.3], "max delay": "2dt",
              "delay tensor": "symbolic per synapse: any real in [0,max] / constrained to the grid / all zero; and concrete Python-float multiples k*dt (k <= 3, dt = 1.3) whose float32 quotient is an ulp off the integer", "steps": "3, then clear() and 2 more (grid/zero delays, and every dense configuration)", "batch": 1},
    "thorough": {"max delay": "dt, 2dt, 3dt for dense and direct connections (2dt for lateral and conv)", "steps": "4, then clear() and 3 more (dense, direct)", "batch": "1 (2 for dense)",
                 "concrete delays": "(1.3, k<=7), (0.1, k<=3), (1.1, k<=5) for all four connection types and synapses"},
}
OUTSIDE = ["interpolation tolerance other than 0", "float32 snapping of delay/dt for SYMBOLIC delays (exact reals; grid points are k * float32(dt)) - concrete k*dt delays run through the real float32 index arithmetic"]
