"""Shared harness pieces: scripted post-synaptic population, constants, small builders."""
from fractions import Fraction as F

import numpy as np
import torch

from symtorch import terms as T
from symtorch.engine import round_to_dtype


def K(x):
    """A Python-float constant as the float32 number a float32 tensor computation sees."""
    return round_to_dtype(F(float(x)), torch.float32)


def scripted_neuron_class():
    from inferno.neural.base import InfernoNeuron

    class ScriptedNeuron(InfernoNeuron):
        """Post-synaptic population whose spikes are supplied by the harness (trainers only read `spike`)."""

        def __init__(self, shape, step_time, batch_size=1):
            InfernoNeuron.__init__(self, shape, batch_size)
            self.step_time = float(step_time)
            self._spike = torch.zeros(self.batchedshape, dtype=torch.bool)
            self.script = []
            self.inputs_seen = []

        @property
        def dt(self):
            return self.step_time

        @dt.setter
        def dt(self, value):
            self.step_time = float(value)

        @property
        def voltage(self):
            return torch.zeros(self.batchedshape)

        @voltage.setter
        def voltage(self, value):
            pass

        @property
        def refrac(self):
            return torch.zeros(self.batchedshape)

        @refrac.setter
        def refrac(self, value):
            pass

        @property
        def spike(self):
            return self._spike

        def clear(self, **kwargs):
            self._spike = torch.zeros(self.batchedshape, dtype=torch.bool)

        def forward(self, inputs, **kwargs):
            self.inputs_seen.append(inputs)
            self._spike = self.script.pop(0)
            return self._spike

    return ScriptedNeuron


def num(v):
    return T.as_num(v)


def zeros(shape, val=F(0)):
    a = np.empty(shape, dtype=object)
    a[...] = val
    return a


def sum_(vals):
    acc = F(0)
    for v in vals:
        acc = T.add(acc, v)
    return acc


def witness_any(e, label, *tensors):
    """Reachability witness: at least one element of the given (boolean / numeric) tensors is non-zero on some path."""
    acc = False
    for t in tensors:
        arr = e.read(t) if isinstance(t, torch.Tensor) else t
        for v in np.asarray(arr, dtype=object).reshape(-1):
            acc = T.bor(acc, T.tob(v))
    e.witness(label, acc)
