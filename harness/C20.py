"""C20 — numerical helpers are self-consistent: interp/extrap, distributions, ISI, Victor-Purpura.

(i) interpolating where a sample was extrapolated from returns the sample (matching pairs),
    linear interpolation stays between the brackets and equals them at the ends - symbolic
    sample, brackets and sample time.
(ii) distributions with symbolic parameters; special functions are uninterpreted functions with
    instantiated axioms: density == documented formula, exp(log-density) == density,
    log-CDF == log(CDF) (and terminates), mean/variance(params_mv(m, v)) == (m, v).
(iii) Victor-Purpura distance on symbolic spike-time vectors (sizes <= 3) and symbolic cost:
    identity, symmetry, triangle inequality, |n0-n1| <= d <= n0+n1, documented limits at 0 / inf.
(iv) ISI: all boolean rasters up to 8 bits (path enumeration): intervals re-integrate to the
    spike times, NaN padding only at the tail.
"""
import math
from fractions import Fraction as F

import numpy as np
import torch

from symtorch.run import Check
from symtorch import terms as T
from symtorch.engine import obj
from harness.C02 import interp_oracle, extrap_oracle, lib_interp, lib_extrap, KW, PAIRS

PROPERTY = "C20"


def h_roundtrip(e, cfg):
    ek, ik, dt = cfg["extrap"], cfg["interp"], cfg["dt"]
    shape = (2,)
    x = e.sym(shape, torch.float64, "x", lo=-10, hi=10)
    p = e.sym(shape, torch.float64, "p", lo=-10, hi=10)
    n = e.sym(shape, torch.float64, "n", lo=-10, hi=10)
    s = e.sym(shape, torch.float64, "s", lo=0, hi=dt)
    sa = e.read(s)
    for v in sa:
        e.assume(T.band(T.tob(T.gt(v, 0)), T.tob(T.lt(v, F(dt)))))
    e.tag(pair=f"{ek}/{ik}", adjust=str(cfg.get("adjust")))
    kw = dict(KW.get(ek, {}))
    adj = {None: None, "halve": (lambda t: t * 0.5), "shift": (lambda t: t + 1.25)}[cfg.get("adjust")]
    adj_el = {None: (lambda v: v), "halve": (lambda v: T.mul(v, F(1, 2))), "shift": (lambda v: T.add(v, F(5, 4)))}[cfg.get("adjust")]
    if adj is not None:
        kw["adjust"] = adj          # documented: applied to the neighbouring state the slope is anchored at, before extrapolating
    pe, ne = lib_extrap(ek)(x, s, p, n, dt, **kw)
    back = lib_interp(ik)(pe, ne, s, dt, **KW.get(ik, {}))
    if (ek, ik) in (("neighbors", "nearest"), ("neighbors", "previous"), ("neighbors", "linear"), ("previous", "previous"), ("next", "next"), ("linear_forward", "linear"), ("linear_backward", "linear"),
                    ("expdecay", "expdecay"), ("expratedecay", "expratedecay"), ("nearest", "nearest")):
        e.oblige_eq("roundtrip:interp-after-extrap", back, e.read(x), split=True)
    # the library kernels equal their documented closed forms
    xa, pa, na = e.read(x), e.read(p), e.read(n)
    for i in range(2):
        pi_, ni_ = (adj_el(pa[i]) if ek == "linear_forward" else pa[i]), (adj_el(na[i]) if ek == "linear_backward" else na[i])
        ope, one = extrap_oracle(ek, xa[i], sa[i], pi_, ni_, F(dt), KW.get(ek, {}))
        e.oblige("extrap:closed-form", T.band(T.tob(T.same(e.read(pe)[i], ope)), T.tob(T.same(e.read(ne)[i], one))), elem=i)


def h_linear(e, cfg):
    dt = cfg["dt"]
    import inferno.functional as fn
    p = e.sym((2,), torch.float64, "p", lo=-10, hi=10)
    n = e.sym((2,), torch.float64, "n", lo=-10, hi=10)
    s = e.sym((2,), torch.float64, "s", lo=0, hi=dt)
    r = e.read(fn.interp_linear(p, n, s, dt))
    pa, na, sa = e.read(p), e.read(n), e.read(s)
    for i in range(2):
        lo, hi = T.minimum(pa[i], na[i]), T.maximum(pa[i], na[i])
        e.oblige("linear:between-brackets", T.band(T.tob(T.ge(r[i], lo)), T.tob(T.le(r[i], hi))), elem=i)
        e.oblige("linear:equals-prev-at-0", T.bor(T.bnot(T.tob(T.eq(sa[i], 0))), T.tob(T.eq(r[i], pa[i]))), elem=i)
        e.oblige("linear:equals-next-at-dt", T.bor(T.bnot(T.tob(T.eq(sa[i], F(dt)))), T.tob(T.eq(r[i], na[i]))), elem=i)


def h_distribution(e, cfg):
    import inferno.stats as st
    which = cfg["dist"]
    e.tag(dist=which, claim=cfg["claim"])
    claim = cfg["claim"]
    tau = F(math.sqrt(math.tau)) if False else None
    if which == "poisson":
        k = e.sym((1,), torch.float32, "k", lo=0, hi=20)
        lam = e.sym((1,), torch.float32, "lam", lo=0, hi=50)
        e.assume(T.gt(e.read(lam)[0], 0))
        kv, lv = e.read(k)[0], e.read(lam)[0]
        if claim == "logdensity-formula":
            got = st.Poisson.logpmf(k, lam)
            exp = T.sub(T.sub(T.ite(T.eq(kv, 0), F(0), T.mul(kv, T.log_(lv))), lv), T.lgamma_(T.add(kv, 1)))
            e.oblige_eq("poisson:logpmf-formula", got, obj(np.array([exp], dtype=object), (1,)))
        elif claim == "exp-log":
            e.oblige_eq("poisson:pmf=exp(logpmf)", st.Poisson.pmf(k, lam), np.frompyfunc(T.exp_, 1, 1)(e.read(st.Poisson.logpmf(k, lam))))
        elif claim == "degenerate-rate-zero":
            # rate 0 is documented valid (all mass at k = 0): pmf(0;0) = 1, logpmf(0;0) = 0, pmf(k>0;0) = 0, cdf = 1
            kk = torch.tensor([0.0, 1.0, 3.0])
            for form, r0 in (("float", 0.0), ("tensor", torch.tensor(0.0)), ("batched", torch.tensor([0.0, 0.0, 0.0]))):
                pm, lp, cd = e.read(st.Poisson.pmf(kk, r0)), e.read(st.Poisson.logpmf(kk, r0)), e.read(st.Poisson.cdf(kk, r0))
                e.oblige("poisson:rate0:pmf(0)=1", T.same(pm[0], 1), form=form, got=str(pm[0]))
                e.oblige("poisson:rate0:logpmf(0)=0", T.same(lp[0], 0), form=form, got=str(lp[0]))
                for j in (1, 2):
                    e.oblige("poisson:rate0:pmf(k>0)=0", T.same(pm[j], 0), form=form, k=j, got=str(pm[j]))
                for j in range(3):
                    e.oblige("poisson:rate0:cdf=1", T.same(cd[j], 1), form=form, k=j, got=str(cd[j]))
            # and inside a batch of otherwise symbolic rates
            lam3 = e.sym((3,), torch.float32, "lam3", lo=0, hi=5)
            e.assume(T.eq(e.read(lam3)[1], 0))
            pm = e.read(st.Poisson.pmf(torch.zeros(3), lam3))
            e.oblige("poisson:rate0:pmf(0)=1", T.same(pm[1], 1), form="symbolic-batch", got=str(pm[1]))
        elif claim == "exp-log-large-support":
            # concrete large counts (their factorials leave the float32 range: concrete sub-terms run on the real float32 kernels) x symbolic rate
            kk = torch.tensor([35.0, 40.0, 60.0])
            lam2 = e.sym((1,), torch.float32, "lam2", lo=25, hi=35)
            e.oblige_eq("poisson:pmf=exp(logpmf)", st.Poisson.pmf(kk, lam2), np.frompyfunc(T.exp_, 1, 1)(e.read(st.Poisson.logpmf(kk, lam2))), split=True)
        elif claim == "logcdf":
            e.oblige_eq("poisson:logcdf=log(cdf)", st.Poisson.logcdf(k, lam), np.frompyfunc(T.log_, 1, 1)(e.read(st.Poisson.cdf(k, lam))))
        else:
            e.oblige_eq("poisson:mean", st.Poisson.mean(lam), e.read(lam))
            e.oblige_eq("poisson:variance", st.Poisson.variance(lam), e.read(lam))
        return
    x = e.sym((1,), torch.float32, "x", lo=(-20 if which == "normal" else 0), hi=20)
    mu = e.sym((1,), torch.float32, "mu", lo=-10, hi=10)
    sg = e.sym((1,), torch.float32, "sg", lo=0, hi=10)
    e.assume(T.gt(e.read(sg)[0], 0))
    if which == "lognormal":
        e.assume(T.gt(e.read(x)[0], 0))
    xv, mv, sv = e.read(x)[0], e.read(mu)[0], e.read(sg)[0]
    D = st.Normal if which == "normal" else st.LogNormal
    from harness.common import K
    if claim == "density-formula":
        if which == "normal":
            got = D.pdf(x, mu, sg)
            z = T.div(T.sub(xv, mv), sv)
            exp = T.mul(T.div(1, T.mul(sv, K(math.sqrt(math.tau)))), T.exp_(T.mul(K(-0.5), T.mul(z, z))))
            e.oblige_eq("normal:pdf-formula", got, obj(np.array([exp], dtype=object), (1,)))
        else:
            got = D.logpdf(x, mu, sg)
            lx = T.log_(xv)
            z = T.div(T.sub(mv, lx), sv)
            exp = T.sub(T.sub(T.neg(T.log_(sv)), lx), T.mul(K(0.5), T.add(K(math.log(math.tau)), T.mul(z, z))))
            e.oblige_eq("lognormal:logpdf-formula", got, obj(np.array([exp], dtype=object), (1,)))
    elif claim == "exp-log":
        if which == "normal":
            e.oblige_eq("normal:logpdf=log(pdf)", D.logpdf(x, mu, sg), np.frompyfunc(T.log_, 1, 1)(e.read(D.pdf(x, mu, sg))))
        else:
            e.oblige_eq("lognormal:pdf=exp(logpdf)", D.pdf(x, mu, sg), np.frompyfunc(T.exp_, 1, 1)(e.read(D.logpdf(x, mu, sg))))
    elif claim == "logcdf":
        e.oblige_eq(f"{which}:logcdf=log(cdf)", D.logcdf(x, mu, sg), np.frompyfunc(T.log_, 1, 1)(e.read(D.cdf(x, mu, sg))))
    elif claim == "cdf-formula":
        arg = xv if which == "normal" else T.log_(xv)
        exp = T.mul(K(0.5), T.add(1, T.erf_(T.div(T.sub(arg, mv), T.mul(sv, K(math.sqrt(2)))))))
        e.oblige_eq(f"{which}:cdf-formula", D.cdf(x, mu, sg), obj(np.array([exp], dtype=object), (1,)))
    else:  # params_mv round trip
        m = e.sym((1,), torch.float32, "m", lo=(-10 if which == "normal" else 0), hi=10)
        v = e.sym((1,), torch.float32, "v", lo=0, hi=10)
        e.assume(T.gt(e.read(v)[0], 0))
        if which == "lognormal":
            e.assume(T.gt(e.read(m)[0], 0))
        loc, scale = D.params_mv(m, v)
        if which == "normal":
            e.oblige_eq("normal:mean-roundtrip", D.mean(loc), e.read(m))
            e.oblige_eq("normal:variance-roundtrip", D.variance(scale), e.read(v))
        else:
            e.oblige_eq("lognormal:mean-roundtrip", D.mean(loc, scale), e.read(m))


def vp(t0, t1, cost):
    import inferno
    return inferno.victor_purpura_pair_dist(t0, t1, cost)


def sorted_times(e, n, name):
    t = e.sym((n,), torch.float32, name, lo=0, hi=10)
    a = e.read(t)
    for i in range(n - 1):
        e.assume(T.le(a[i], a[i + 1]))
    return t


def h_vp(e, cfg):
    n0, n1, claim = cfg["n0"], cfg["n1"], cfg["claim"]
    e.tag(metric="victor-purpura", claim=claim, n0=n0, n1=n1)
    a, b = sorted_times(e, n0, "a"), sorted_times(e, n1, "b")
    if cfg["cost"] == "symbolic":
        c = e.sym((1,), torch.float32, "c", lo=0, hi=100)
    elif cfg["cost"] == "any":
        cf = e.scalar("cfin", "f", lo=0, hi=100)
        c = e.lift(obj(np.array([T.XR(False, e._var("cinf", "b"), False, cf)], dtype=object), (1,)), torch.float32)
    else:
        c = torch.tensor([cfg["cost"]], dtype=torch.float32)
    if claim == "identity":
        e.oblige_eq("vp:d(a,a)=0", vp(a, a.clone(), c), np.array([F(0)], dtype=object))
    elif claim == "symmetry":
        e.oblige_eq("vp:symmetry", vp(a, b, c), e.read(vp(b, a, c)))
    elif claim == "bounds":
        d = e.read(vp(a, b, c))[0]
        dv = d.val if isinstance(d, T.XR) else d
        e.oblige("vp:finite", T.bnot(T.bor(T.isnan(d), T.isinf(d))))
        e.oblige("vp:lower-bound", T.ge(dv, abs(n0 - n1)))
        e.oblige("vp:upper-bound", T.le(dv, n0 + n1))
    elif claim == "limits":
        # documented: cost 0 -> |n0 - n1|; cost inf -> n0 + n1; a tensor cost agrees with the float cost
        d = vp(a, b, c)
        want = abs(n0 - n1) if cfg["cost"] == 0.0 else n0 + n1
        e.oblige_eq("vp:cost-limit", d, np.array([F(want)], dtype=object))
        e.oblige_eq("vp:tensor-cost-equals-float-cost", d, e.read(vp(a, b, float(cfg["cost"]))))
    else:  # triangle
        cc = sorted_times(e, cfg["n2"], "cvec")
        dab, dbc, dac = (e.read(vp(x, y, c))[0] for x, y in ((a, b), (b, cc), (a, cc)))
        e.oblige("vp:triangle", T.le(dac, T.add(dab, dbc)))


def h_isi(e, cfg):
    import inferno
    Tn, n, tf, dt = cfg["T"], cfg["n"], cfg["time_first"], cfg["dt"]
    shape = (Tn, n) if tf else (n, Tn)
    s = e.sym(shape, torch.bool, "s")
    r = inferno.isi(s, dt, time_first=tf)
    sa = e.read(s)
    e.tag(helper="isi", time_first=tf)
    ra = e.read(r)
    if not tf:
        sa, ra = sa.T, ra.T
    counts = []
    for j in range(n):
        col = [bool(T.tob(sa[t, j])) if not T.is_z(T.tob(sa[t, j])) else e.branch(sa[t, j]) for t in range(Tn)]
        times = [t * dt for t in range(Tn) if col[t]]
        counts.append(len(times))
        want = [b_ - a_ for a_, b_ in zip(times, times[1:])]
        got = [ra[k, j] for k in range(ra.shape[0])] if ra.shape[0] else []
        ok = len(got) >= len(want)
        for k, w in enumerate(want):
            ok = ok and k < len(got) and not isinstance(got[k], T.XR) and abs(float(got[k]) - w) < 1e-5
        for k in range(len(want), len(got)):
            ok = ok and isinstance(got[k], T.XR) and got[k].nan is True
        e.oblige("isi:reintegrates-and-nan-tail", ok, column=j, spikes=str(times), got=str([str(g) for g in got]))
    e.oblige("isi:length", ra.shape[0] == max(max(counts) - 1, 0), got=ra.shape[0], counts=str(counts))


def checks(tier):
    th = tier == "thorough"
    rt = [dict(extrap=ek, interp=ik, dt=dt) for (ek, ik) in PAIRS for dt in ((1.0, 0.5, 1.3) if th else (1.0, 1.3))]
    rt += [dict(extrap=ek, interp="linear", dt=dt, adjust=a) for ek in ("linear_forward", "linear_backward") for a in ("halve", "shift") for dt in ((1.0, 0.5, 1.3) if th else (1.3,))]
    ln = [dict(dt=dt) for dt in (1.0, 0.5, 1.3)]
    ds = []
    for d in ("poisson", "normal", "lognormal"):
        claims = ["logdensity-formula", "exp-log", "degenerate-rate-zero", "exp-log-large-support", "logcdf", "moments"] if d == "poisson" else ["density-formula", "exp-log", "logcdf", "cdf-formula", "params-roundtrip"]
        for c in claims:
            if d == "lognormal" and c == "params-roundtrip":
                continue          # needs exp(log(y)/2) = sqrt(y): beyond the instantiated axioms (listed as uncovered)
            ds.append(dict(dist=d, claim=c))
    vps = []
    sizes = [(0, 0), (1, 0), (1, 1), (2, 1), (2, 2)] + ([(3, 2), (3, 3), (0, 3)] if th else [(3, 1)])
    for n0, n1 in sizes:
        for cost in ("symbolic", "any"):
            for claim in ("identity", "symmetry", "bounds"):
                if claim == "identity" and cost == "any":
                    continue      # documented: an infinite cost counts coincident spikes too
                if claim == "symmetry" and (n0, n1) == (3, 3):
                    continue      # measured: z3 returns unknown after 120 s on the 3x3 dynamic-programming table (stated as outside the bound)
                vps.append(dict(n0=n0, n1=n1, cost=cost, claim=claim))
        for cost in (0.0, float("inf")):
            vps.append(dict(n0=n0, n1=n1, cost=cost, claim="limits"))
    for n0, n1, n2 in (((1, 1, 1), (2, 1, 1), (1, 2, 1), (2, 2, 1)) if th else ((1, 1, 1), (2, 1, 1), (1, 1, 2))):
        vps.append(dict(n0=n0, n1=n1, n2=n2, cost="symbolic", claim="triangle"))
    isi = [dict(T=Tn, n=n, time_first=tf, dt=dt) for (Tn, n) in (((4, 2), (3, 2), (5, 1), (8, 1)) if th else ((4, 2), (3, 2), (5, 1))) for tf in (True, False) for dt in (1.0, 0.5)]
    o = {"div_policy": "xr", "query_timeout_ms": 120000, "max_paths": 5000}
    return [Check("interp_extrap", h_roundtrip, rt, opts=o, timeout_s=900), Check("linear_brackets", h_linear, ln, opts=o, timeout_s=600), Check("distributions", h_distribution, ds, opts=dict(o, div_policy="assume"), timeout_s=900),
            Check("victor_purpura", h_vp, vps, opts=o, timeout_s=1800), Check("isi", h_isi, isi, opts=o, timeout_s=1800)]


BOUNDS = {
    "quick": {"interp/extrap": "10 pairs x dt in {1.0, 1.3}; symbolic sample, brackets, sample time in (0, dt)", "distributions": "Poisson, Normal, LogNormal with symbolic parameters (1 element)",
              "victor-purpura": "sorted symbolic spike-time vectors of sizes up to (3,1)/(2,2); cost symbolic finite, symbolic finite-or-infinite, 0, inf; triangle on sizes <= 2", "isi": "all rasters with T*n <= 8 bits"},
    "thorough": {"victor-purpura sizes": "up to (3,3)", "isi": "up to 8x1"},
}
OUTSIDE = ["NOT ADDRESSED by this family: densities integrate / sum to the CDF and to one; stated mean and variance match the density's moments (integrals of transcendental functions)",
           "LogNormal mean/variance parameterisation round trip (needs exp(log(y)/2) = sqrt(y))", "ISI is covered by bounded path enumeration, not by a solver verdict over values (data-dependent output shape)",
           "special functions are uninterpreted with instantiated axioms"]
