"""C01 — RecordTensor is a faithful ring-buffer history under every operation order.

Inductive step: from an ARBITRARY symbolic storage (N x shape fresh variables) and every
pointer position, run ONE public operation with arbitrary arguments and check (a) the
returned value against a list model written from the docstrings and (b) that the
representation relation  storage'[(ptr' - j) mod N] == M'[j]  holds again.  (a)+(b) for
every operation from every (N, ptr) covers operation sequences of any length.
"""
import numpy as np
import torch
import torch.nn as nn

from symtorch.run import Check, grid
from symtorch import terms as T
from symtorch.engine import obj

PROPERTY = "C01"
DTYPES = {"f32": torch.float32, "i64": torch.int64, "bool": torch.bool}


def make(e, N, shape, ptr, dtype, param, name="D"):
    """A RecordTensor of size N holding arbitrary symbolic contents with the pointer at ptr."""
    from inferno.core.infrastructure import Module, RecordTensor
    m = Module()
    init = torch.zeros(shape, dtype=dtype)
    if param:
        init = nn.Parameter(init, requires_grad=False)
    RecordTensor.create(m, "rec", 1.0, float(N), init)
    rec = m.rec
    assert rec.recordsz == N, (rec.recordsz, N)
    D = e.sym((N, *shape), dtype, name)
    rec.value = D
    if ptr:
        rec.incr(ptr)
    assert rec.pointer == ptr
    arr = e.read(D)
    M = [arr[(ptr - j) % N, ...] for j in range(N)]  # M[j] = observation j steps before the write position
    return m, rec, M


def check_state(e, rec, M, ptr_expected, label="state", split=False):
    N = len(M)
    ptr = rec.pointer
    e.oblige(label + ":pointer-range", isinstance(ptr, int) and 0 <= ptr < N, pointer=str(ptr))
    if ptr_expected is not None:
        e.oblige(label + ":pointer", ptr == ptr_expected % N, pointer=ptr, expected=ptr_expected % N)
    val = rec.value
    if tuple(val.shape) != (N, *np.shape(M[0])):
        e.oblige(label + ":shape", False, got=list(val.shape))
        return
    arr = e.read(val)
    if split:
        for j in range(N):
            e.oblige_eq(label + ":contents", arr[(ptr - j) % N, ...], M[j], split=True, slot=j)
        return
    acc = True
    for j in range(N):
        acc = T.band(acc, e.all_same(arr[(ptr - j) % N, ...], M[j]))
    e.oblige(label + ":contents", acc)


def cast_to(v, src, dst):
    return T.cast(v, src, dst)


def h_pointer_ops(e, cfg):
    """push / pop / peek / read / write / incr / decr / align / reset with scalar arguments."""
    N, shape, ptr, dt = cfg["N"], tuple(cfg["shape"]), cfg["ptr"], DTYPES[cfg["dtype"]]
    op = cfg["op"]
    m, rec, M = make(e, N, shape, ptr, dt, cfg["param"])
    k = cfg.get("k", 0)
    e.tag(op=op)
    if op in ("push", "write"):
        odt = DTYPES[cfg.get("obs_dtype", cfg["dtype"])]
        obs = e.sym(shape, odt, "obs", lo=(-8 if odt != torch.bool else None), hi=(8 if odt != torch.bool else None))
        oarr = e.read(obs)
        stored = np.frompyfunc(lambda v: cast_to(v, odt, dt), 1, 1)(oarr) if oarr.size else oarr
        if oarr.ndim == 0:
            stored = obj(cast_to(oarr[()], odt, dt), ())
    if op == "push":
        rec.push(obs, inplace=cfg["inplace"])
        M2 = list(M)
        M2[0] = stored
        M2 = [M2[(j - 1) % N] for j in range(N)]
        check_state(e, rec, M2, ptr + 1)
        e.oblige_eq("push:peek", rec.peek(), stored)
    elif op == "write":
        rec.write(obs, offset=k, inplace=cfg["inplace"])
        M2 = list(M)
        M2[k % N] = stored
        check_state(e, rec, M2, ptr)
        e.oblige_eq("write:read-back", rec.read(k), stored)
    elif op == "read":
        e.oblige_eq("read:value", rec.read(k), M[k % N])
        check_state(e, rec, M, ptr)
    elif op == "peek":
        e.oblige_eq("peek:value", rec.peek(), M[1 % N])
        check_state(e, rec, M, ptr)
    elif op == "pop":
        r = rec.pop()
        e.oblige_eq("pop:value", r, M[1 % N])
        check_state(e, rec, [M[(j + 1) % N] for j in range(N)], ptr - 1)
    elif op == "incr":
        r = rec.incr(k)
        e.oblige("incr:return", r == (ptr + k) % N)
        check_state(e, rec, [M[(j - k) % N] for j in range(N)], ptr + k)
    elif op == "decr":
        rec.decr(k)
        check_state(e, rec, [M[(j + k) % N] for j in range(N)], ptr - k)
    elif op == "incr-decr":
        rec.incr(k)
        rec.decr(k)
        check_state(e, rec, M, ptr)
    elif op == "align":
        rec.align(k % N)
        check_state(e, rec, M, k % N)
    elif op == "reset":
        rec.reset(cfg["fill"])
        if cfg["fill"] is None:
            check_state(e, rec, M, 0)
        else:
            f = T.cast(T.num(cfg["fill"]), torch.float32 if isinstance(cfg["fill"], float) else torch.int64, dt)
            z = np.empty(shape, dtype=object)
            z[...] = f
            check_state(e, rec, [z] * N, 0)
    else:
        raise AssertionError(op)


def _range_model_read(M, N, L, off, forward):
    """off: per-element offsets (object array of obs shape, ints or terms). Returns array shape (*shape, L)."""
    shape = off.shape
    out = np.empty(shape + (L,), dtype=object)
    for pos in (np.ndindex(*shape) if shape else [()]):
        o = off[pos]
        for i in range(L):
            j = T.sub(o, i) if forward else T.add(o, L - 1 - i)
            out[pos + (i,)] = _sel_mod(M, pos, j, N)
    return out


def _sel_mod(M, pos, j, N):
    """M[j mod N][pos] for a concrete or symbolic integer j >= 0."""
    if not T.is_z(j):
        return M[int(j) % N][pos]
    jm = j % N
    r = M[N - 1][pos]
    for c in range(N - 2, -1, -1):
        r = T.ite(jm == c, M[c][pos], r)
    return r


def h_readrange(e, cfg):
    N, shape, ptr, dt = cfg["N"], tuple(cfg["shape"]), cfg["ptr"], DTYPES[cfg["dtype"]]
    L, forward, tensor_off = cfg["L"], cfg["forward"], cfg["tensor"]
    m, rec, M = make(e, N, shape, ptr, dt, cfg["param"])
    e.tag(op="readrange", scalar=not tensor_off, full=(L == N), forward=forward)
    if tensor_off:
        off_t = e.sym(shape, torch.int64, "off", lo=0, hi=2 * N)
        off = e.read(off_t)
        got = rec.readrange(L, off_t, forward=forward)
    else:
        k = cfg["k"]
        off = np.empty(shape, dtype=object)
        off[...] = k
        got = rec.readrange(L, k, forward=forward)
    e.oblige_eq("readrange:value", got, _range_model_read(M, N, L, off, forward))
    check_state(e, rec, M, ptr)


def h_writerange(e, cfg):
    N, shape, ptr, dt = cfg["N"], tuple(cfg["shape"]), cfg["ptr"], DTYPES[cfg["dtype"]]
    L, forward, tensor_off = cfg["L"], cfg["forward"], cfg["tensor"]
    m, rec, M = make(e, N, shape, ptr, dt, cfg["param"])
    e.tag(op="writerange", scalar=not tensor_off, full=(L == N), forward=forward, inplace=cfg["inplace"])
    obs_t = e.sym((*shape, L), dt, "obs")
    obs = e.read(obs_t)
    if tensor_off:
        off_t = e.sym(shape, torch.int64, "off", lo=0, hi=2 * N)
        off = e.read(off_t)
        rec.writerange(obs_t, off_t, forward=forward, inplace=cfg["inplace"])
    else:
        k = cfg["k"]
        off = np.empty(shape, dtype=object)
        off[...] = k
        rec.writerange(obs_t, k, forward=forward, inplace=cfg["inplace"])
    # model: per element, slot (off + L-1-i) mod N (backward) / (off - i) mod N (forward) receives obs[..., i]
    M2 = [np.array(x, dtype=object, copy=True).reshape(shape) for x in M]
    for pos in (np.ndindex(*shape) if shape else [()]):
        o = off[pos]
        for c in range(N):
            v = M[c][pos]
            for i in range(L):
                j = T.sub(o, i) if forward else T.add(o, L - 1 - i)
                if not T.is_z(j):
                    if int(j) % N == c:
                        v = obs[pos + (i,)]
                else:
                    v = T.ite((j % N) == c, obs[pos + (i,)], v)
            M2[c][pos] = v
    check_state(e, rec, M2, ptr)
    # read the range back through the public API
    back = rec.readrange(L, off_t if tensor_off else cfg["k"], forward=forward) if L < N or tensor_off else None
    if back is not None:
        e.oblige_eq("writerange:readrange-back", back, obs)


def h_autocreate(e, cfg):
    """Storage auto-created by the first push adopts the observation's dtype when the record has none."""
    from inferno.core.infrastructure import Module, RecordTensor
    N, shape, odt = cfg["N"], tuple(cfg["shape"]), DTYPES[cfg["obs_dtype"]]
    m = Module()
    init = {"none": None, "empty": torch.empty(0), "ubuf": nn.UninitializedBuffer()}[cfg["init"]]
    RecordTensor.create(m, "rec", 1.0, float(N), init)
    rec = m.rec
    e.tag(op="autocreate", init=cfg["init"], obs_dtype=cfg["obs_dtype"])
    pushes = []
    for s in range(cfg["steps"]):
        lo, hi = (None, None) if odt == torch.bool else (-8, 8)
        o = e.sym(shape, odt, f"obs{s}", lo=lo, hi=hi)
        pushes.append(o)
        rec.push(o, inplace=cfg["inplace"])
    sdt = rec.value.dtype
    if cfg["init"] == "none":
        e.oblige("autocreate:dtype-adopted", sdt == odt, storage_dtype=str(sdt))
    for j, o in enumerate(reversed(pushes[-N:]), 1):
        oa = e.read(o)
        expect = np.frompyfunc(lambda v: T.cast(v, odt, sdt), 1, 1)(oa) if cfg["init"] != "none" else oa
        e.oblige_eq("autocreate:read", rec.read(j), expect, j=j)
    e.oblige("autocreate:pointer", rec.pointer == cfg["steps"] % N)


def h_sequence(e, cfg):
    """Bounded 3-operation programs chosen nondeterministically (sanity layer over the induction)."""
    N, shape, dt = cfg["N"], tuple(cfg["shape"]), torch.float32
    m, rec, M = make(e, N, shape, cfg["ptr"], dt, False)
    ptr = cfg["ptr"]
    prog = []
    for step in range(cfg["len"]):
        op = e.choose(6)
        if op == 0:
            o = e.sym(shape, dt, f"o{step}")
            rec.push(o, inplace=bool(step % 2))
            M[0] = e.read(o)
            M = [M[(j - 1) % N] for j in range(N)]
            ptr += 1
            prog.append("push")
        elif op == 1:
            r = rec.pop()
            e.oblige_eq(f"seq{step}:pop", r, M[1 % N])
            M = [M[(j + 1) % N] for j in range(N)]
            ptr -= 1
            prog.append("pop")
        elif op == 2:
            k = e.choose(2 * N + 1)
            o = e.sym(shape, dt, f"o{step}")
            rec.write(o, k, inplace=bool(step % 2))
            M[k % N] = e.read(o)
            prog.append(f"write{k}")
        elif op == 3:
            k = e.choose(N)
            rec.align(k)
            ptr = k
            prog.append(f"align{k}")
        elif op == 4:
            k = e.choose(2 * N + 1)
            rec.incr(k)
            M = [M[(j - k) % N] for j in range(N)]
            ptr += k
            prog.append(f"incr{k}")
        else:
            L = 1 + e.choose(N)
            if L == N:
                continue  # full-span scalar readrange is covered (and reported) by the readrange check
            k = e.choose(N + 1)
            off = np.empty(shape, dtype=object)
            off[...] = k
            e.oblige_eq(f"seq{step}:readrange", rec.readrange(L, k), _range_model_read(M, N, L, off, False))
            prog.append(f"readrange{L},{k}")
    e.tag(program=" ".join(prog))
    check_state(e, rec, M, ptr, label="seq")


def checks(tier):
    thorough = tier == "thorough"
    Ns = [1, 2, 3] + ([4, 5] if thorough else [])
    shapes = [(), (2,)] + ([(2, 2)] if thorough else [])
    out = []

    def ptrs(N):
        return range(N)

    # scalar pointer operations
    cfgs = []
    for N in Ns:
        for shape in shapes:
            for ptr in ptrs(N):
                for dtype in (["f32", "i64", "bool"] if shape == (2,) else ["f32"]):
                    for param in ([False, True] if dtype == "f32" and shape == (2,) else [False]):
                        base = dict(N=N, shape=shape, ptr=ptr, dtype=dtype, param=param)
                        for inplace in (False, True):
                            cfgs.append(dict(base, op="push", inplace=inplace))
                            for k in range(0, 2 * N + 1):
                                cfgs.append(dict(base, op="write", k=k, inplace=inplace))
                        if dtype == "i64":
                            for inplace in (False, True):
                                cfgs.append(dict(base, op="push", inplace=inplace, obs_dtype="f32"))
                                cfgs.append(dict(base, op="write", k=1, inplace=inplace, obs_dtype="f32"))
                        for k in range(0, 2 * N + 1):
                            for op in ("read", "incr", "decr", "incr-decr", "align"):
                                cfgs.append(dict(base, op=op, k=k))
                        for op in ("peek", "pop"):
                            cfgs.append(dict(base, op=op))
                        for fill in (0, None, 1):
                            cfgs.append(dict(base, op="reset", fill=fill))
    out.append(Check("pointer_ops", h_pointer_ops, cfgs, timeout_s=300))

    rr, wr = [], []
    for N in Ns:
        for shape in shapes:
            for ptr in ptrs(N):
                for L in range(1, N + 1):
                    for forward in (False, True):
                        base = dict(N=N, shape=shape, ptr=ptr, dtype="f32", param=False, L=L, forward=forward)
                        rr.append(dict(base, tensor=True))
                        for k in range(0, 2 * N + 1):
                            rr.append(dict(base, tensor=False, k=k))
                        for inplace in (False, True):
                            wr.append(dict(base, tensor=True, inplace=inplace))
                            for k in range(0, 2 * N + 1):
                                wr.append(dict(base, tensor=False, k=k, inplace=inplace))
    out.append(Check("readrange", h_readrange, rr, timeout_s=600))
    out.append(Check("writerange", h_writerange, wr, timeout_s=600))

    ac = []
    for N in ([1, 2, 3] if thorough else [2, 3]):
        for init in ("none", "empty", "ubuf"):
            for od in ("f32", "i64", "bool"):
                for inplace in (False, True):
                    for steps in (1, N + 1):
                        ac.append(dict(N=N, shape=(2,), init=init, obs_dtype=od, inplace=inplace, steps=steps))
    out.append(Check("autocreate", h_autocreate, ac, timeout_s=300))

    sq = [dict(N=N, shape=(2,), ptr=p, len=(3 if thorough else 2)) for N in ([2, 3] if thorough else [2]) for p in range(N)]
    out.append(Check("sequences", h_sequence, sq, opts={"max_paths": 200000}, timeout_s=3000))
    return out


BOUNDS = {
    "quick": {"N": [1, 2, 3], "obs_shape": ["()", "(2,)"], "pointer": "every position", "offsets": "[0, 2N] scalar; symbolic per-element tensor offsets in [0,2N]",
              "lengths": "[1, N]", "dtypes": ["float32", "int64", "bool"], "programs": "1 operation from an arbitrary symbolic state (induction) + all 2-op programs at N=2"},
    "thorough": {"N": [1, 2, 3, 4, 5], "obs_shape": ["()", "(2,)", "(2,2)"], "pointer": "every position", "offsets": "[0, 2N]", "lengths": "[1, N]",
                 "dtypes": ["float32", "int64", "bool"], "programs": "1 operation from an arbitrary symbolic state (induction) + all 3-op programs at N in {2,3}"},
}
OUTSIDE = ["record sizes above the grid", "gradient tracking through out-of-place writes", "devices other than CPU"]
