"""C17 — layers wire components as documented; clear() restores the initial state.

Relational: the layer's outputs and component states are compared, for symbolic inputs and
symbolic weights, with a hand composition of separately built, identically parameterised
components written from the layer docstrings (Serial, Biclique with every combine mode and
transforms, RecurrentSerial with the feedback recurrence written out).  Replay determinism:
k arbitrary steps, clear(), T steps on X  ==  fresh layer on X; parameters and adaptations are
unchanged by clear().
"""
from fractions import Fraction as F

import numpy as np
import torch

from symtorch.run import Check
from symtorch import terms as T

PROPERTY = "C17"
DT = 1.0


def mk_neuron(kind, n, B):
    import inferno.neural as neural
    if kind == "lif":
        return neural.LIF((n,), DT, rest_v=-60.0, reset_v=-65.0, thresh_v=-50.0, refrac_t=2.0, time_constant=20.0, batch_size=B)
    if kind == "alif":
        return neural.ALIF((n,), DT, rest_v=-60.0, reset_v=-65.0, thresh_eq_v=-50.0, refrac_t=1.0, tc_membrane=20.0, tc_adaptation=10.0, spike_increment=0.5, batch_size=B)
    if kind in ("qif", "qif0"):
        # "qif0": no refractory period - the layer then reads the wrong `spike` attribute (known finding C03-spike-attr-refrac0, seen through the wiring)
        return neural.QIF((n,), DT, rest_v=-60.0, crit_v=-50.0, affinity=0.04, reset_v=-65.0, thresh_v=30.0, refrac_t=(0.0 if kind == "qif0" else 1.0), time_constant=1.0, batch_size=B)
    raise AssertionError(kind)


def mk_conn(syn, nin, nout, B, bias, delay=None):
    import inferno.neural as neural
    ctor = {"delta": neural.DeltaCurrent.partialconstructor(20.0), "single": neural.SingleExponentialCurrent.partialconstructor(30.0, 3.0),
            "double": neural.DoubleExponentialCurrent.partialconstructor(30.0, 6.0, 2.0)}[syn]
    return neural.LinearDense((nin,), (nout,), DT, synapse=ctor, bias=bias, batch_size=B, delay=delay)


class Params:
    """Symbolic parameters shared by the layer's components and the reference components."""

    def __init__(self, e):
        self.e, self.store = e, {}

    def give(self, name, conn):
        if name not in self.store:
            # wide enough that a single presynaptic spike can drive a neuron over threshold within one step (otherwise spikes, and with
            # them the feedback loop, are unreachable in the 2-5 steps explored: see the reachability witnesses)
            w = self.e.sym(tuple(conn.weight.shape), torch.float32, "W" + name, lo=-30, hi=30)
            b = self.e.sym(tuple(conn.bias.shape), torch.float32, "b" + name, lo=-30, hi=30) if conn.biased else None
            self.store[name] = (w, b)
        w, b = self.store[name]
        conn.weight = w.clone()
        if b is not None:
            conn.bias = b.clone()


def states(e, comps):
    out = {}
    for nm, c in comps.items():
        if hasattr(c, "voltage"):
            out[nm + ".voltage"] = e.read(c.voltage)
            out[nm + ".refrac"] = e.read(c.refrac)
            if hasattr(c, "threshold_adaptation"):
                out[nm + ".adapt"] = e.read(c.threshold_adaptation)
        else:
            out[nm + ".current"] = e.read(c.synapse.current)
            out[nm + ".spike"] = e.read(c.synapse.spike)
    return out


def compare_states(e, a, b, label, **sig):
    for k in a:
        e.oblige_eq(label + ":" + k.split(".")[1], a[k], b[k], comp=k, **sig)


def spikes_in(e, B, n, name):
    return e.sym((B, n), torch.bool, name, ind=True)


def h_serial(e, cfg):
    import inferno.neural as neural
    B, nin, nout = cfg["B"], 3, 2
    e.tag(layer="serial", transform=cfg["transform"], syn=cfg["syn"])
    P = Params(e)
    tf = {"none": None, "scale": (lambda x, **kw: x * 0.5 + 1.0)}[cfg["transform"]]
    c1, n1 = mk_conn(cfg["syn"], nin, nout, B, cfg["bias"]), mk_neuron(cfg["neuron"], nout, B)
    c2, n2 = mk_conn(cfg["syn"], nin, nout, B, cfg["bias"]), mk_neuron(cfg["neuron"], nout, B)
    P.give("c", c1); P.give("c", c2)
    layer = neural.Serial(c1, n1, transform=tf)
    for t in range(cfg["T"]):
        x = spikes_in(e, B, nin, f"x{t}")
        out, inter = layer(x, capture_intermediate=True)
        ref_c = c2(x)
        ref = n2(tf(ref_c) if tf else ref_c)
        e.oblige("serial:output-shape", tuple(out.shape) == tuple(n1.batchedshape), got=str(tuple(out.shape)), step=t)
        from harness.common import witness_any
        witness_any(e, "serial:a-neuron-spikes", out)
        e.oblige_eq("serial:output", out, e.read(ref), step=t)
        e.oblige_eq("serial:intermediate", inter, e.read(ref_c), step=t)
        compare_states(e, states(e, {"n": n1, "c": c1}), states(e, {"n": n2, "c": c2}), "serial:state", step=t)
        out2 = layer(spikes_in(e, B, nin, f"y{t}")) if False else None


COMBINE = {
    "sum": lambda vs: _fold(vs, T.add), "prod": lambda vs: _fold(vs, T.mul), "min": lambda vs: _fold(vs, T.minimum), "max": lambda vs: _fold(vs, T.maximum),
    "mean": lambda vs: T.div(_fold(vs, T.add), len(vs)),
}


def _fold(vs, f):
    acc = vs[0]
    for v in vs[1:]:
        acc = f(acc, v)
    return acc


def h_biclique(e, cfg):
    import inferno.neural as neural
    B, nin, nout = cfg["B"], 3, 2
    comb = cfg["combine"]
    e.tag(layer="biclique", combine=comb, transforms=cfg["transforms"])
    P = Params(e)
    cn = ["a", "b"][:cfg["nconn"]]
    nn_ = ["x", "y"][:cfg["nneur"]]
    post = {"a": (lambda t: t * 2.0), "b": (lambda t: t - 1.0)} if cfg["transforms"] else {}
    pre = {"x": (lambda t: t + 0.5), "y": (lambda t: t * -1.0)} if cfg["transforms"] else {}
    conns = {k: mk_conn("delta", nin, nout, B, False) for k in cn}
    refc = {k: mk_conn("delta", nin, nout, B, False) for k in cn}
    neus = {k: mk_neuron("lif", nout, B) for k in nn_}
    refn = {k: mk_neuron("lif", nout, B) for k in nn_}
    for k in cn:
        P.give(k, conns[k]); P.give(k, refc[k])
    if comb == "custom":
        combine = lambda tensors, **kw: sum(tensors.values()) * 0.25
    else:
        combine = comb
    layer = neural.Biclique([(k, conns[k]) + ((post[k],) if k in post else ()) for k in cn], [(k, neus[k]) + ((pre[k],) if k in pre else ()) for k in nn_], combine)
    for t in range(cfg["T"]):
        xs = {k: spikes_in(e, B, nin, f"x{k}{t}") for k in cn}
        out = layer({k: (xs[k],) for k in cn})
        # reference: every neuron group receives the combination of all (transformed) connection outputs
        co = {k: refc[k](xs[k]) for k in cn}
        co = {k: (post[k](v) if k in post else v) for k, v in co.items()}
        arrs = [e.read(co[k]) for k in cn]
        combined = np.empty((B, nout), dtype=object)
        for pos in np.ndindex(B, nout):
            vs = [a[pos] for a in arrs]
            combined[pos] = T.mul(_fold(vs, T.add), F(1, 4)) if comb == "custom" else COMBINE[comb](vs)
        ct = e.lift(combined, torch.float32)
        for k in nn_:
            ref = refn[k](pre[k](ct) if k in pre else ct)
            e.oblige("biclique:output-shape", tuple(out[k].shape) == tuple(neus[k].batchedshape), got=str(tuple(out[k].shape)), neuron=k, step=t)
            if tuple(out[k].shape) == tuple(ref.shape):
                from harness.common import witness_any
                witness_any(e, "biclique:a-neuron-spikes", out[k])
                e.oblige_eq("biclique:output", out[k], e.read(ref), neuron=k, step=t)
            e.oblige("biclique:state-shape", tuple(neus[k].voltage.shape) == tuple(neus[k].batchedshape), got=str(tuple(neus[k].voltage.shape)), step=t)
        if all(tuple(neus[k].voltage.shape) == tuple(refn[k].voltage.shape) for k in nn_):
            compare_states(e, states(e, neus), states(e, refn), "biclique:state", step=t)


def h_recurrent(e, cfg):
    import inferno.neural as neural
    B, nin, nff, nfb = cfg["B"], 3, 2, 2
    e.tag(layer="recurrent", fbsyn=cfg["fbsyn"], fbbias=cfg["fbbias"], fbneuron=cfg["fbneuron"])
    P = Params(e)

    def comps():
        return dict(ff=mk_conn("delta", nin, nff, B, False), lat=mk_conn("delta", nff, nfb, B, False), fb=mk_conn(cfg["fbsyn"], nfb, nff, B, cfg["fbbias"]),
                    nff=mk_neuron("lif", nff, B), nfb=mk_neuron(cfg["fbneuron"], nfb, B))
    L, R = comps(), comps()
    for k in ("ff", "lat", "fb"):
        P.give(k, L[k]); P.give(k, R[k])
    layer = neural.RecurrentSerial(L["ff"], L["lat"], L["fb"], L["nff"], L["nfb"])
    prev_fb = None
    for t in range(cfg["T"]):
        x = spikes_in(e, B, nin, f"x{t}")
        out = layer(x)
        # documented recurrence: feed-forward neurons get the feed-forward current plus the feedback connection's
        # response to the feedback spikes of the previous step (no spikes on the first)
        fbs = prev_fb if prev_fb is not None else torch.zeros(B, nfb, dtype=torch.bool)
        ff_spk = R["nff"](R["ff"](x) + R["fb"](fbs))
        fb_spk = R["nfb"](R["lat"](ff_spk))
        prev_fb = fb_spk
        e.oblige("recurrent:output-shapes", tuple(out[0].shape) == tuple(L["nff"].batchedshape) and tuple(out[1].shape) == tuple(L["nfb"].batchedshape), step=t)
        if t >= 1:
            fbv = e.read(fbs).reshape(-1)
            anyfb = False
            for v in fbv:
                anyfb = T.bor(anyfb, T.tob(v))
            e.witness("recurrent:a-feedback-spike-reaches-the-feedforward-group", anyfb)
        e.oblige_eq("recurrent:feedforward-spikes", out[0], e.read(ff_spk), step=t)
        e.oblige_eq("recurrent:feedback-spikes", out[1], e.read(fb_spk), step=t)
        compare_states(e, states(e, L), states(e, R), "recurrent:state", step=t)


def h_clear(e, cfg):
    """k arbitrary steps, clear(), T steps on X == fresh layer on X; parameters and adaptations kept."""
    import inferno.neural as neural
    B, nin, n = cfg["B"], 3, 2
    kind = cfg["layer"]
    e.tag(layer=kind, clear_after=cfg["k"])
    P = Params(e)

    def build():
        if kind == "serial":
            c, nu = mk_conn(cfg["syn"], nin, n, B, True, delay=cfg.get("delay")), mk_neuron(cfg["neuron"], n, B)
            P.give("c", c)
            return neural.Serial(c, nu), {"c": c, "n": nu}
        if kind == "biclique":
            cs = {k: mk_conn(cfg["syn"], nin, n, B, False) for k in ("a", "b")}
            ns = {k: mk_neuron(cfg["neuron"], n, B) for k in ("x", "y")}
            for k in cs:
                P.give(k, cs[k])
            return neural.Biclique([(k, v) for k, v in cs.items()], [(k, v) for k, v in ns.items()], "sum"), {**cs, **ns}
        cps = dict(ff=mk_conn(cfg["syn"], nin, n, B, False), lat=mk_conn("delta", n, n, B, False), fb=mk_conn(cfg["syn"], n, n, B, True),
                   nff=mk_neuron(cfg["neuron"], n, B), nfb=mk_neuron("lif", n, B))
        for k in ("ff", "lat", "fb"):
            P.give(k, cps[k])
        return neural.RecurrentSerial(cps["ff"], cps["lat"], cps["fb"], cps["nff"], cps["nfb"]), cps

    def step(layer, xs):
        if kind == "biclique":
            return layer({"a": (xs[0],), "b": (xs[1],)})
        return layer(xs[0])

    def flat(out):
        if isinstance(out, dict):
            return [out[k] for k in sorted(out)]
        if isinstance(out, tuple):
            return list(out)
        return [out]

    used, comps_u = build()
    fresh, comps_f = build()
    adapt = None
    if cfg["neuron"] == "alif":
        adapt = e.sym(tuple(next(v for v in comps_u.values() if hasattr(v, "threshold_adaptation")).threshold_adaptation.shape), torch.float32, "A0", lo=0, hi=2)
        for cp in (comps_u, comps_f):
            for v in cp.values():
                if hasattr(v, "threshold_adaptation"):
                    v.threshold_adaptation = adapt.clone()
        used.eval(); fresh.eval()      # adaptations are learned state: frozen while comparing replays
    from harness.common import witness_any
    for j in range(cfg["k"]):
        junk_out = flat(step(used, [spikes_in(e, B, nin, f"junk{j}{i}") for i in range(2)]))
        if not (cfg["syn"] == "double" and cfg["k"] == 1):      # (a double-exponential current is still 0 on the step of its first input spike)
            witness_any(e, "clear:the-layer-was-active-before-clear", *junk_out)
    params_before = {k: e.read(v.weight).copy() for k, v in comps_u.items() if hasattr(v, "weight")}
    used.clear()
    for k, v in comps_u.items():
        if hasattr(v, "weight"):
            e.oblige_eq("clear:parameters-kept", v.weight, params_before[k], comp=k)
        if adapt is not None and hasattr(v, "threshold_adaptation"):
            e.oblige_eq("clear:adaptations-kept", v.threshold_adaptation, e.read(adapt), comp=k)
    for t in range(cfg["T"]):
        xs = [spikes_in(e, B, nin, f"x{t}{i}") for i in range(2)]
        a, b = flat(step(used, xs)), flat(step(fresh, xs))
        for i, (u, f) in enumerate(zip(a, b)):
            e.oblige_eq("clear:replay-output", u, e.read(f), step=t, out=i)
        compare_states(e, states(e, comps_u), states(e, comps_f), "clear:replay-state", step=t)


def checks(tier):
    th = tier == "thorough"
    ser = [dict(B=B, syn=s, bias=b, neuron=n, transform=tf, T=(3 if th else 2)) for B in ((1, 2) if th else (2,)) for s in ("delta", "single") for b in (False, True)
           for n in (("lif", "alif", "qif") if th else ("lif", "alif")) for tf in ("none", "scale")]
    bic = [dict(B=2, combine=c, transforms=tr, nconn=nc, nneur=nn, T=2) for c in ("sum", "mean", "prod", "min", "max", "custom") for tr in (False, True)
           for nc, nn in (((2, 2), (1, 2), (2, 1)) if th else ((2, 2),))]
    if not th:
        # a single connection: the combination (built-in or custom) of ONE output is still the combination
        bic += [dict(B=2, combine=c, transforms=tr, nconn=1, nneur=nn, T=2) for c in ("custom", "mean") for tr in (False, True) for nn in (1, 2)]
    rec = [dict(B=B, fbsyn=s, fbbias=b, fbneuron=fn, T=(3 if th else 3)) for B in ((1, 2) if th else (1,)) for s in ("delta", "single") for b in (False, True)
           for fn in (("lif", "qif") if th else ("lif",))]
    rec.append(dict(B=1, fbsyn="delta", fbbias=False, fbneuron="qif0", T=3))
    clr = []
    for layer in ("serial", "biclique", "recurrent"):
        for syn in ("delta", "single", "double"):
            for neuron in ("lif", "alif"):
                for k in ((1, 2, 3) if th else (2,)):
                    clr.append(dict(layer=layer, syn=syn, neuron=neuron, k=k, T=(3 if th else 2), B=1))
    clr.append(dict(layer="serial", syn="single", neuron="lif", k=3, T=2, B=1, delay=2.0))
    o = {"max_paths": 20000}
    return [Check("serial", h_serial, ser, opts=o, timeout_s=900), Check("biclique", h_biclique, bic, opts=o, timeout_s=900),
            Check("recurrent", h_recurrent, rec, opts=o, timeout_s=1800), Check("clear", h_clear, clr, opts=o, timeout_s=1800)]


BOUNDS = {
    "quick": {"sizes": "3 inputs -> 2 neurons per group, batch 1-2", "steps": "2-3 symbolic input steps", "serial": "delta/single-exponential synapse, bias on/off, LIF/ALIF, transform none/affine",
              "biclique": "2 connections x 2 neuron groups; combine sum/mean/prod/min/max/custom; with and without transforms",
              "recurrent": "feedback synapse delta/single-exponential, feedback bias on/off, T=3", "clear": "after 2 arbitrary steps, 2 replay steps, 3 layer types x 3 synapses x LIF/ALIF (+ one delayed connection)"},
    "thorough": {"steps": 3, "clear positions": [1, 2, 3], "batch": [1, 2], "biclique": "also 1x2 and 2x1"},
}
OUTSIDE = ["population sizes above 3->2", "conv connections inside layers", "transforms other than the two affine maps used"]
