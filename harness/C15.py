"""C15 — trainer/monitor lifecycle: one observation per training step, cells isolated.

Programs over {layer step, trainer.train/eval, layer.train/eval, trainer.clear, del_cell,
register_cell, drop-last-reference-and-collect} are enumerated exhaustively up to a length
bound through solver-driven choice points.  Every layer step feeds FRESH SYMBOLIC spikes, so
"the monitor recorded exactly this step's observation, once, and nothing while disarmed" is an
equality between the monitor's contents and the closed-form trace over exactly the armed
steps, decided by the solver for all spike values.  A reference model (which monitors are
armed) is the oracle for listings.
"""
import gc
import math
from fractions import Fraction as F

import numpy as np
import torch

from symtorch.run import Check
from symtorch import terms as T
from harness.common import K, scripted_neuron_class, num, sum_
from harness.C08 import trace_closed

PROPERTY = "C15"
DT = 1.0
TC_POST, TC_PRE = 20.0, 15.0


def build_layer(kind, B=1):
    import inferno.neural as neural
    syn = neural.DeltaCurrent.partialconstructor(1.0)
    Scripted = scripted_neuron_class()
    if kind == "shared-neuron":
        ca = neural.LinearDense((2,), (2,), DT, synapse=syn, batch_size=B)
        cb = neural.LinearDense((2,), (2,), DT, synapse=syn, batch_size=B)
        for c in (ca, cb):
            c.updater = c.defaultupdater()
        nx = Scripted((2,), DT, B)
        layer = neural.Biclique([("a", ca), ("b", cb)], [("x", nx)], "sum")
        return layer, {"A": layer.get_cell("a", "x"), "B": layer.get_cell("b", "x")}, nx
    c = neural.LinearDense((2,), (2,), DT, synapse=syn, batch_size=B)
    c.updater = c.defaultupdater()
    nx = Scripted((2,), DT, B)
    layer = neural.Serial(c, nx)
    return layer, {"A": layer.cell}, nx


def stdp():
    import inferno.learn as learn
    return learn.STDP(1.0, -0.5, TC_POST, TC_PRE, batch_reduction=torch.sum)


def expected_monitors(e, obs_post, obs_pre, mode="cumulative", obs_spike_post=None):
    """Closed forms of the four STDP monitors over the recorded (armed) steps; an entry is None when that monitor has recorded nothing.
    obs_spike_post: the history of the spike_post monitor when it is not the same pooled history as trace_post's."""
    out = {"trace_post": None, "spike_post": None, "trace_pre": None, "spike_pre": None}
    for side, obs, decay, amp in (("post", obs_post, K(math.exp(-DT / TC_POST)), K(0.5)), ("pre", obs_pre, K(math.exp(-DT / TC_PRE)), K(1.0))):
        if not obs:
            continue
        B, n = obs[0].shape
        tr = np.empty((B, n), dtype=object)
        for pos in np.ndindex(B, n):
            tr[pos] = trace_closed([num(o[pos]) for o in obs], decay, amp, mode)
        out["trace_" + side], out["spike_" + side] = tr, obs[-1]
    if obs_spike_post is not None:
        out["spike_post"] = obs_spike_post[-1] if obs_spike_post else None
    return out


def check_trainer(e, trainer, cells_model, label, prog, step):
    """cells_model: name -> dict(obs_post=[...], obs_pre=[...]) for every cell that should be registered."""
    names = sorted(n for n, _ in trainer.named_cells)
    e.oblige(label + ":cell-listing", names == sorted(cells_model), got=str(names), want=str(sorted(cells_model)), program=prog, step=step)
    for cname, mdl in cells_model.items():
        mons = dict(trainer.named_monitors_of(cname))
        want_names = ["spike_post", "spike_pre", "trace_post", "trace_pre"] + (["user"] if mdl.get("user") is not None else [])
        e.oblige(label + ":monitor-listing", sorted(mons) == sorted(want_names), got=str(sorted(mons)), cell=cname, program=prog, step=step)
        exp = expected_monitors(e, mdl["obs_post"], mdl["obs_pre"], obs_spike_post=mdl.get("obs_spike"))
        if mdl.get("user") is not None:
            # user-added monitor: cumulative trace (tc 5, amplitude 1) of the post-synaptic spikes over the armed steps since it was added
            obs = mdl["user"]
            exp["user"] = None
            if obs:
                Bn, nn = obs[0].shape
                tr = np.empty((Bn, nn), dtype=object)
                for pos in np.ndindex(Bn, nn):
                    tr[pos] = trace_closed([num(o[pos]) for o in obs], K(math.exp(-DT / 5.0)), K(1.0), "cumulative")
                exp["user"] = tr
        for mname, mon in mons.items():
            got = mon.peek()
            if exp[mname] is None:
                e.oblige(label + ":nothing-recorded-yet", got is None, cell=cname, monitor=mname, program=prog, step=step)
            elif got is None:
                e.oblige(label + ":recorded-every-armed-step", False, cell=cname, monitor=mname, program=prog, step=step, detail="monitor is empty")
            else:
                e.oblige_eq(label + ":recorded-every-armed-step", got, exp[mname], cell=cname, monitor=mname, program=prog, step=step)
    try:
        listed = list(trainer.monitors)
        named = list(trainer.named_monitors)
        want = sum(len(dict(trainer.named_monitors_of(c))) for c in cells_model)
        e.oblige(label + ":named-monitors-listing", len(named) == want, got=len(named), want=want, program=prog, step=step)
    except TypeError as ex:
        e.oblige(label + ":monitors-listing-raises", False, message=str(ex)[:100], program=prog, step=step)


OPS = ["step", "t.eval", "t.train", "L.eval", "L.train", "t.clear", "del A", "reg A", "del B", "reg B", "trainer-step"]


def h_single(e, cfg):
    layer, cells, neuron = build_layer(cfg["layer"])
    tr = stdp()
    e.tag(layer=cfg["layer"], scenario="single-trainer")
    model = {}
    # post-side monitors of cells sharing the neuron group are pooled per monitor name: one history per trainer, group and name, alive
    # while at least one cell aliases it (a cell registered later joins it; when the last alias goes a later cell starts a fresh one)
    pool = {"trace": [], "spike": []}

    def join(c):
        model[c] = dict(obs_post=pool["trace"], obs_spike=pool["spike"], obs_pre=[], user=None)

    def release():
        for key, fld in (("trace", "obs_post"), ("spike", "obs_spike")):
            if not any(m[fld] is pool[key] for m in model.values()):
                pool[key] = []

    def lists():
        seen, out = set(), []
        for m in model.values():
            for fld in ("obs_post", "obs_spike", "user"):
                if m.get(fld) is not None and id(m[fld]) not in seen:
                    seen.add(id(m[fld])); out.append(m[fld])
        return out
    for c in cfg["initial"]:
        tr.register_cell(c, cells[c])
        join(c)
    t_train, l_train = True, True
    ops = [o for o in OPS if ("B" not in o or "B" in cells)] + (["add M", "del M", "rep A"] if cfg.get("user") else [])
    prog = []
    nstep = 0
    plan = list(cfg.get("prefix", [])) + [None] * cfg["free"]
    for i, fixed in enumerate(plan):
        op = fixed if fixed is not None else ops[e.choose(len(ops))]
        prog.append(op)
        if op == "step":
            post = e.sym((1, 2), torch.bool, f"post{nstep}", ind=True)
            neuron.script.append(post)
            if "B" in cells:
                xa, xb = e.sym((1, 2), torch.bool, f"xa{nstep}", ind=True), e.sym((1, 2), torch.bool, f"xb{nstep}", ind=True)
                layer({"a": (xa,), "b": (xb,)})
                pres = {"A": e.read(xa), "B": e.read(xb)}
            else:
                xa = e.sym((1, 2), torch.bool, f"xa{nstep}", ind=True)
                layer(xa)
                pres = {"A": e.read(xa)}
            nstep += 1
            if t_train and l_train and model:
                for lst in lists():
                    lst.append(e.read(post))
                for c in model:
                    model[c]["obs_pre"].append(pres[c])
        elif op == "t.eval":
            tr.eval(); t_train = False
        elif op == "t.train":
            tr.train(); t_train = True
        elif op == "L.eval":
            layer.eval(); l_train = False
        elif op == "L.train":
            layer.train(); l_train = True
        elif op == "t.clear":
            tr.clear()
            for lst in lists():
                del lst[:]
            for c in model:
                model[c]["obs_pre"] = []
        elif op == "add M":
            # add_monitor on a registered cell: a user monitor with its own name, reducer and tags (never aliased with the trainer's)
            if "A" in model and model["A"].get("user") is None:
                import inferno.observe as ob
                tr.add_monitor("A", "user", "neuron.spike", ob.StateMonitor.partialconstructor(
                    reducer=ob.CumulativeTraceReducer(DT, 5.0, amplitude=1.0, target=True, duration=0.0, inclusive=True),
                    as_prehook=False, train_update=True, eval_update=False, prepend=True), False, dt=DT, tc=5.0, purpose="user")
                model["A"]["user"] = []
        elif op == "rep A":
            # replace cell A's (possibly pooled) "spike_post" monitor by a unique one of the same name: a cell that shares the pooled
            # monitor keeps it (and its history); A's new monitor starts empty
            if "A" in model:
                import inferno.observe as ob
                tr.add_monitor("A", "spike_post", "neuron.spike", ob.StateMonitor.partialconstructor(
                    reducer=ob.PassthroughReducer(DT, duration=0.0, inclusive=True),
                    as_prehook=False, train_update=True, eval_update=False, prepend=True), True, dt=DT)
                model["A"]["obs_spike"] = []
                release()
        elif op == "del M":
            if "A" in model and model["A"].get("user") is not None:
                tr.del_monitor("A", "user")
                model["A"]["user"] = None
        elif op.startswith("del "):
            c = op[-1]
            if c in model:
                tr.del_cell(c)
                del model[c]
                release()       # a pooled monitor whose last alias is gone is dropped
        elif op.startswith("reg "):
            c = op[-1]
            if c not in model:
                tr.register_cell(c, cells[c])
                join(c)
        else:
            ready = bool(model) and all(m["obs_post"] and m["obs_spike"] and m["obs_pre"] for m in model.values())
            if ready and t_train and l_train:
                tr()          # must succeed: complete, current data
                for c in cells.values():
                    c.connection.updater.clear()
        check_trainer(e, tr, model, "single", " ; ".join(prog), i)


def h_layers(e, cfg):
    """One trainer, cells from two DIFFERENT layers of identical structure (same monitor names, attribute paths and tags):
    each cell's monitors record its own layer's steps only."""
    L = {k: build_layer("serial") for k in ("A", "B")}        # (layer, {"A": cell}, neuron)
    cells = {k: L[k][1]["A"] for k in L}
    tr = stdp()
    e.tag(scenario="two-layers")
    model = {}
    for c in cfg["initial"]:
        tr.register_cell(c, cells[c])
        model[c] = dict(obs_post=[], obs_pre=[])
    ops = ["step A", "step B", "del A", "reg A", "del B", "reg B", "t.clear"]
    prog, n = [], 0
    for i in range(cfg["free"]):
        op = ops[e.choose(len(ops))]
        prog.append(op)
        if op.startswith("step"):
            k = op[-1]
            layer, _, neuron = L[k]
            post = e.sym((1, 2), torch.bool, f"post{n}", ind=True)
            x = e.sym((1, 2), torch.bool, f"x{n}", ind=True)
            n += 1
            neuron.script.append(post)
            layer(x)
            if k in model:
                model[k]["obs_post"].append(e.read(post)); model[k]["obs_pre"].append(e.read(x))
        elif op.startswith("del"):
            k = op[-1]
            if k in model:
                tr.del_cell(k); del model[k]
        elif op.startswith("reg"):
            k = op[-1]
            if k not in model:
                tr.register_cell(k, cells[k]); model[k] = dict(obs_post=[], obs_pre=[])
        else:
            tr.clear()
            for k in model:
                model[k] = dict(obs_post=[], obs_pre=[])
        check_trainer(e, tr, model, "layers", " ; ".join(prog), i)


def h_two(e, cfg):
    """A second trainer on the same cell (same monitor names) never disturbs the first."""
    import inferno.learn as learn
    layer, cells, neuron = build_layer("serial")
    first_kind, second_kind = cfg["first"], cfg["second"]
    e.tag(scenario="two-trainers", first=first_kind, second=second_kind)

    def mk(kind):
        if kind == "stdp":
            return stdp()
        if kind == "stdp-other":
            return learn.STDP(0.7, -0.2, 10.0, 8.0, batch_reduction=torch.sum)
        return learn.MSTDPET(1.0, -0.5, TC_POST, TC_PRE, 10.0, batch_reduction=torch.sum)
    t1, t2 = mk(first_kind), mk(second_kind)
    t1.register_cell("A", cells["A"])
    m1 = dict(obs_post=[], obs_pre=[])
    t2_reg, t1_train = False, True
    ops = ["step", "t2.reg", "t2.del", "t2.eval", "t2.train", "t2.clear", "drop t2"]
    prog = []
    z_post = None
    alive2 = True
    for i in range(cfg["free"]):
        op = ops[cfg["first_op"]] if i == 0 else ops[e.choose(len(ops))]
        prog.append(op)
        if op == "step":
            post = e.sym((1, 2), torch.bool, f"post{i}", ind=True)
            xa = e.sym((1, 2), torch.bool, f"xa{i}", ind=True)
            neuron.script.append(post)
            layer(xa)
            m1["obs_post"].append(e.read(post)); m1["obs_pre"].append(e.read(xa))
        elif not alive2:
            continue
        elif op == "t2.reg":
            if not t2_reg:
                t2.register_cell("A", cells["A"]); t2_reg = True
        elif op == "t2.del":
            if t2_reg:
                t2.del_cell("A"); t2_reg = False
        elif op == "t2.eval":
            t2.eval()
        elif op == "t2.train":
            t2.train()
        elif op == "t2.clear":
            t2.clear()
        else:
            del t2
            gc.collect()
            alive2, t2_reg = False, False
        # the first trainer's own monitors are unaffected by anything the second one does
        mons = dict(t1.named_monitors_of("A"))
        amp_pre, amp_post = (K(1.0), K(0.5))
        exp = expected_monitors(e, m1["obs_post"], m1["obs_pre"])
        for mname in ("trace_post", "spike_post", "trace_pre", "spike_pre"):
            got = mons[mname].peek()
            if exp[mname] is None:
                e.oblige("two:first-trainer-untouched", got is None, monitor=mname, program=" ; ".join(prog), step=i)
            elif got is None:
                e.oblige("two:first-trainer-untouched", False, monitor=mname, program=" ; ".join(prog), step=i, detail="monitor is empty")
            else:
                e.oblige_eq("two:first-trainer-untouched", got, exp[mname], monitor=mname, program=" ; ".join(prog), step=i)
        if first_kind == "mstdpet" and exp["trace_post"] is not None:
            # eligibility trace z_post = filtered (post spike x pre trace): closed form over the first trainer's own observations
            az, sz = K(math.exp(-DT / 10.0)), K(1 / 10.0)
            want = np.empty((1, 2, 2), dtype=object)
            for o in range(2):
                for j in range(2):
                    z = F(0)
                    for t in range(len(m1["obs_post"])):
                        xpre = trace_closed([num(p[0, j]) for p in m1["obs_pre"][: t + 1]], K(math.exp(-DT / TC_PRE)), K(1.0), "cumulative")
                        c = T.mul(num(m1["obs_post"][t][0, o]), xpre)
                        z = T.add(T.mul(z, az), T.mul(sz, c)) if t > 0 else T.mul(sz, c)
                    want[0, o, j] = z
            got = mons["elig_post"].peek()
            if got is None:
                e.oblige("two:eligibility-untouched", False, program=" ; ".join(prog), step=i, detail="empty")
            else:
                e.oblige_eq("two:eligibility-untouched", got, want, program=" ; ".join(prog), step=i)


def checks(tier):
    th = tier == "thorough"
    single = []
    for layer, initial in (("serial", ["A"]), ("shared-neuron", ["A", "B"]), ("shared-neuron", ["A"])):
        prefixes = [[], ["step"], ["step", "step"]] + ([["step", "del A"], ["t.eval", "step"]] if "B" in initial or th else [])
        for pf in prefixes:
            free = min(4, 5 - len(pf)) if th else ((3 if layer == "serial" else 2) if pf else 3)      # (5 free operations: measured 50 min per configuration)
            single.append(dict(layer=layer, initial=initial, prefix=pf, free=free))
        # user-added monitors (add_monitor / del_monitor) interleaved with everything else
        for pf in ([], ["add M"], ["add M", "step"], ["step", "add M"]):
            single.append(dict(layer=layer, initial=initial, prefix=pf, free=(3 if th else 2), user=True))
        # repeated arm/disarm cycles (hook handles are re-created every time) before the free part
        for pf in (["t.eval", "t.train"], ["t.eval", "t.train", "t.eval", "t.train"], ["L.eval", "L.train", "t.eval", "t.train"], ["step", "t.eval", "t.train", "t.eval"]):
            single.append(dict(layer=layer, initial=initial, prefix=pf, free=(3 if th else 2)))
    two = [dict(first=a, second=b, free=(5 if th else (4 if a == "mstdpet" and b == "stdp" else 3)), first_op=k) for a, b in (("stdp", "stdp"), ("stdp", "stdp-other"), ("mstdpet", "stdp"), ("mstdpet", "mstdpet"), ("stdp", "mstdpet"))
           for k in range(7)]
    o = {"max_paths": 400000, "query_timeout_ms": 60000, "max_violations": 4}
    lay = [dict(initial=ini, free=(4 if th else 3)) for ini in (["A", "B"], ["A"], [])]
    return [Check("single_trainer", h_single, single, opts=o, timeout_s=3000), Check("two_trainers", h_two, two, opts=o, timeout_s=3000),
            Check("two_layers", h_layers, lay, opts=o, timeout_s=3000)]


BOUNDS = {
    "quick": {"programs": "all programs of 3-4 operations (after the fixed prefixes [], [step], [step, step], [step, del A], [t.eval, step]; 2 operations after the arm/disarm-cycle prefixes [t.eval, t.train], [t.eval, t.train, t.eval, t.train], [L.eval, L.train, t.eval, t.train], [step, t.eval, t.train, t.eval]) over {layer step, trainer train/eval, layer train/eval, add_monitor/del_monitor of a user monitor and replacement of a pooled monitor through add_monitor(unique=True) (in the configurations that enable it), "
                          "trainer clear, del/register cell A/B, trainer step}; two-trainer programs of 4 operations over {step, t2 register/del/eval/train/clear, drop t2}",
              "layers": "Serial (1 cell), a Biclique whose two cells share the post-synaptic group, and one trainer over two separate Serial layers of identical structure (programs of 3 operations)", "trainers": "STDP (one or two, same or different hyper-parameters), MSTDPET",
              "observations": "fresh symbolic spikes each step; monitor contents compared with the closed-form trace over exactly the armed steps"},
    "thorough": {"programs": "4 free operations after every prefix (3 after the user-monitor and arm/disarm prefixes); two-trainer programs of 5 operations"},
}
OUTSIDE = ["user-defined monitors other than one cumulative-trace monitor on cell A", "homeostasis and kernel trainers (same CellTrainer machinery)", "program quantifier = exhaustive enumeration up to the bound",
           "garbage-collection timing is executed under CPython"]
