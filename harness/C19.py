"""C19 — spike encoders respect shape, rate limit, silence at zero and refractory gap.

The encoder classes (offline and online) run on SYMBOLIC intensities in [0, 1] and SYMBOLIC
random draws (every exponential / Poisson / Bernoulli / uniform draw is a fresh variable
constrained only by the documented support), so the verdict covers every generator seed.
IEEE specials are modelled (1/0 intensities).  Obligations: boolean output with exactly
`steps` time-first slices, no spike for a zero intensity, consecutive spikes of one element
at least ceil(refrac/dt) steps apart for the refractory encoder, scatter indices in range.
"""
import math
from fractions import Fraction as F

import numpy as np
import torch

from symtorch.run import Check
from symtorch import terms as T

PROPERTY = "C19"


def make(cfg):
    import inferno.neural as neural
    k, steps, dt, freq = cfg["encoder"], cfg["steps"], cfg["dt"], cfg["frequency"]
    if k == "homogeneous":
        return neural.HomogeneousPoissonEncoder(steps, dt, freq, refrac=cfg["refrac"], compensate=cfg["compensate"])
    if k == "approx":
        return neural.HomogeneousPoissonApproxEncoder(steps, dt, freq)
    return neural.PoissonIntervalEncoder(steps, dt, freq)


def h_encoder(e, cfg):
    enc = make(cfg)
    n, steps, dt = cfg["n"], cfg["steps"], cfg["dt"]
    online = cfg["online"]
    e.tag(encoder=cfg["encoder"], online=online, refrac=str(cfg.get("refrac")), compensate=cfg.get("compensate"))
    x = e.sym((n,), torch.float32, "x", lo=0, hi=1)
    xa = e.read(x)
    if cfg["encoder"] == "homogeneous" and cfg.get("compensate"):
        # documented domain of the compensated encoder: frequency * refrac < 1000 (checked by the class); the rate of every element obeys it too
        pass
    out = enc(x, online=online)
    if online:
        slices = list(out)
        e.oblige("online:yields-exactly-steps", len(slices) == steps, got=len(slices))
        ok = all(s.dtype == torch.bool and tuple(s.shape) == (n,) for s in slices)
        e.oblige("online:slice-shape-dtype", ok)
        if not ok or len(slices) != steps:
            return
        sp = np.stack([e.read(s) for s in slices], 0)
    else:
        e.oblige("offline:shape-dtype", out.dtype == torch.bool and tuple(out.shape) == (steps, n), got=f"{out.dtype},{tuple(out.shape)}")
        if tuple(out.shape) != (steps, n):
            return
        sp = e.read(out)
    anys = False
    for v in sp.reshape(-1):
        anys = T.bor(anys, T.tob(v))
    first_possible = 0 if cfg["encoder"] != "homogeneous" else max(1, math.ceil((cfg["refrac"] if cfg["refrac"] is not None else dt) / dt - 1e-9))
    if steps > first_possible:       # (the refractory encoder cannot fire before one refractory period has elapsed)
        e.witness("encoder:some-spike-is-emitted", anys)
    for i in range(n):
        zero = T.eq(xa[i], 0)
        for t in range(steps):
            e.oblige("silence-at-zero-intensity", T.bor(T.bnot(T.tob(zero)), T.bnot(T.tob(sp[t, i]))), elem=i, step=t)
    if cfg["encoder"] == "homogeneous":
        refrac = cfg["refrac"] if cfg["refrac"] is not None else dt
        gap = max(1, math.ceil(refrac / dt - 1e-9))
        for i in range(n):
            for t1 in range(steps):
                for t2 in range(t1 + 1, min(steps, t1 + gap)):
                    e.oblige("refractory-gap", T.bnot(T.band(T.tob(sp[t1, i]), T.tob(sp[t2, i]))), elem=i, t1=t1, t2=t2, gap=gap)


def h_generator(e, cfg):
    """Reproducibility from the generator state, as a dataflow fact over every path: an encoder constructed with an explicit
    torch.Generator takes EVERY random draw from that generator (then the output is a function of the input and the generator state)."""
    g = torch.Generator()
    g.manual_seed(0x5EEDC19)         # the dispatcher hands the operator a fresh Python wrapper of the same generator: identify it by its seed
    import inferno.neural as neural
    k, steps, dt, freq = cfg["encoder"], cfg["steps"], cfg["dt"], cfg["frequency"]
    if k == "homogeneous":
        enc = neural.HomogeneousPoissonEncoder(steps, dt, freq, refrac=cfg["refrac"], compensate=cfg["compensate"], generator=g)
    elif k == "approx":
        enc = neural.HomogeneousPoissonApproxEncoder(steps, dt, freq, generator=g)
    else:
        enc = neural.PoissonIntervalEncoder(steps, dt, freq, generator=g)
    e.tag(encoder=k, online=cfg["online"], claim="draws-from-own-generator")
    x = e.sym((cfg["n"],), torch.float32, "x", lo=0, hi=1)
    n0 = len(e.rng_calls)
    out = enc(x, online=cfg["online"])
    if cfg["online"]:
        out = list(out)
    calls = e.rng_calls[n0:]
    e.oblige("generator:some-draw", len(calls) > 0)
    for i, (op, gen) in enumerate(calls):
        e.oblige("generator:every-draw-from-the-encoder-generator", gen is not None and gen.initial_seed() == 0x5EEDC19, op=op, call=i, got=("default RNG" if gen is None else "another generator"))


def h_functional(e, cfg):
    """The functional encoders directly (covers the inhomogeneous Bernoulli approximation and explicit refrac=None)."""
    import inferno.neural.functional as nf
    which, steps, dt, n = cfg["fn"], cfg["steps"], cfg["dt"], cfg["n"]
    e.tag(fn=which)
    if which == "inhomogeneous":
        x = e.sym((steps, n), torch.float32, "x", lo=0, hi=2000)
        out = nf.inhomogeneous_poisson_bernoulli_approx(x, dt)
        e.oblige("offline:shape-dtype", out.dtype == torch.bool and tuple(out.shape) == (steps, n))
        xa, sp = e.read(x), e.read(out)
        for t in range(steps):
            for i in range(n):
                e.oblige("silence-at-zero-intensity", T.bor(T.bnot(T.tob(T.eq(xa[t, i], 0))), T.bnot(T.tob(sp[t, i]))), elem=i, step=t)
        return
    x = e.sym((n,), torch.float32, "x", lo=0, hi=cfg["fmax"])
    xa = e.read(x)
    if which == "exp_interval":
        out = nf.homogeneous_poisson_exp_interval(x, steps, dt, refrac=cfg["refrac"], compensate=False)
    elif which == "exp_interval_online":
        out = torch.stack(list(nf.homogeneous_poisson_exp_interval_online(x, steps, dt, refrac=cfg["refrac"], compensate=False)), 0)
    elif which == "poisson_interval":
        out = nf.poisson_interval(x, steps, dt)
    else:
        out = torch.stack(list(nf.poisson_interval_online(x, steps, dt)), 0)
    e.oblige("offline:shape-dtype", out.dtype == torch.bool and tuple(out.shape) == (steps, n), got=f"{out.dtype},{tuple(out.shape)}")
    if tuple(out.shape) != (steps, n):
        return
    sp = e.read(out)
    for i in range(n):
        for t in range(steps):
            e.oblige("silence-at-zero-intensity", T.bor(T.bnot(T.tob(T.eq(xa[i], 0))), T.bnot(T.tob(sp[t, i]))), elem=i, step=t)
    if which.startswith("exp_interval"):
        refrac = cfg["refrac"] if cfg["refrac"] is not None else dt
        gap = max(1, math.ceil(refrac / dt - 1e-9))
        for i in range(n):
            for t1 in range(steps):
                for t2 in range(t1 + 1, min(steps, t1 + gap)):
                    e.oblige("refractory-gap", T.bnot(T.band(T.tob(sp[t1, i]), T.tob(sp[t2, i]))), elem=i, t1=t1, t2=t2, gap=gap)


def checks(tier):
    th = tier == "thorough"
    enc = []
    for k in ("homogeneous", "approx", "interval"):
        for online in (False, True):
            for dt in (1.0, 0.5):
                for steps, n in ((((1, 1), (1, 2), (3, 1), (3, 2), (5, 1)) if th else ((1, 1), (4, 1), (4, 2))) if not online else (((1, 1), (3, 1), (2, 2), (5, 1)) if th else ((1, 1), (4, 1), (2, 2)))):
                    for freq in ((10.0, 500.0, 1000.0) if th else (10.0, 500.0)):
                        for _ in (0,):
                            if k == "homogeneous":
                                for rmul in (None, 1, 2, 3):
                                    refrac = None if rmul is None else rmul * dt
                                    for comp in (True, False):
                                        if comp and freq * (refrac or dt) >= 1000:
                                            continue
                                        if not th and (comp and rmul == 3):
                                            continue
                                        enc.append(dict(encoder=k, online=online, dt=dt, steps=steps, frequency=freq, n=n, refrac=refrac, compensate=comp))
                            else:
                                enc.append(dict(encoder=k, online=online, dt=dt, steps=steps, frequency=freq, n=n))
    # step times that are not powers of two: refrac / dt is not exact in floating point (0.3 / 0.1 = 2.9999999999999996)
    for online in (False, True):
        for dt, refrac in ((0.1, 0.3), (0.1, 0.2), (0.2, 0.6)) + (((0.1, 0.5), (0.4, 2.0), (0.3, 0.9)) if th else ()):
            for comp in (False, True):
                enc.append(dict(encoder="homogeneous", online=online, dt=dt, steps=6, frequency=500.0, n=1, refrac=refrac, compensate=comp))
    fn = []
    for which in ("exp_interval", "exp_interval_online", "poisson_interval", "poisson_interval_online", "inhomogeneous"):
        for dt in (1.0, 0.5):
            for steps, n in (((4, 1), (3, 2)) if "online" not in which else ((3, 1),)):
                if which.startswith("exp_interval"):
                    for rmul in (None, 1, 2):
                        fn.append(dict(fn=which, dt=dt, steps=steps, n=n, refrac=(None if rmul is None else rmul * dt), fmax=400.0))
                    if dt == 1.0:
                        fn.append(dict(fn=which, dt=0.1, steps=6, n=1, refrac=0.3, fmax=400.0))
                else:
                    fn.append(dict(fn=which, dt=dt, steps=steps, n=n, fmax=1500.0))
    o = {"div_policy": "xr", "query_timeout_ms": 120000, "max_paths": 20000}
    gen = [dict(c) for c in enc if c["steps"] >= 3 and c["n"] == 1 and c["dt"] in (1.0, 0.1) and c["frequency"] == 500.0 and c.get("refrac") in (None, 0.3, 2.0) and c.get("compensate") in (None, False)]
    return [Check("encoders", h_encoder, enc, opts=o, timeout_s=1800), Check("functional", h_functional, fn, opts=o, timeout_s=1800),
            Check("generator_flow", h_generator, gen, opts=o, timeout_s=1800)]


BOUNDS = {
    "quick": {"encoders": "HomogeneousPoissonEncoder (refrac None/dt/2dt/3dt, compensate on/off), HomogeneousPoissonApproxEncoder, PoissonIntervalEncoder; offline and online",
              "steps": "1, 4 (6 for the inexact-ratio configurations)", "dt": "1.0, 0.5; and (dt, refrac) in {(0.1, 0.3), (0.1, 0.2), (0.2, 0.6)} where refrac/dt is inexact in floating point", "frequency": [10, 500], "elements": "1-2 symbolic intensities in [0,1] (zero pattern forked)", "draws": "every random draw symbolic", "generator_flow": "every random op of every path receives the encoder's own torch.Generator (offline and online, all three encoder classes)"},
    "thorough": {"steps": [1, 3, 5], "frequency": [10, 500, 1000]},
}
OUTSIDE = ["reproducibility is decided as a dataflow fact (every draw on every path is taken from the encoder's own generator; the C++ generator itself - same state, same draws - is trusted)",
           "statistical rate correctness", "refractory periods that are not multiples of the step time", "more than 2 elements / 5 steps"]
