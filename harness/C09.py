"""C09 — every trainer's LTP/LTD split is non-negative and nets to the signed rule.

For all trainers (STDP, triplet, MSTDP, MSTDPET with per-cell sign overrides that differ from
the constructor's; kernel and delay-adjusted weight/delay variants; linear homeostasis on
weight/bias/delay), every trainer step on symbolic histories: each part handed to the updater
is element-wise >= 0 and potentiation - depression equals the rule's signed update; parts
routed as potentiation are the ones scaled by the upper-bound function (multiplicative bounds
configured, weight after update compared).  Direction lemmas: Hebbian causal pair strengthens,
anti-causal weakens, negative reward flips, homeostasis moves toward the target rate.
"""
from fractions import Fraction as F

import numpy as np
import torch

from symtorch.run import Check
from symtorch import terms as T
from harness.common import K, scripted_neuron_class, num, sum_, zeros
from harness import C08, C18

PROPERTY = "C09"


def h_split(e, cfg):
    C08.h_stdp(e, cfg)


def h_da(e, cfg):
    """Kernel / delay-adjusted variants: exact parts (C18 oracle) + non-negativity + net rule."""
    variant = cfg["variant"]
    e.tag(variant=variant, signs=cfg["signs"])
    layer, conn, neuron = C18.build(e, cfg)
    inputs = C18.history(e, cfg)
    dl = C18.delays_for(e, cfg, conn, changing=variant.endswith("d"))
    out, tr, param = C18.run(e, cfg, variant, layer, conn, neuron, inputs, dl, C18.signals_for(e, cfg), check=True)
    for t, (p, n_) in enumerate(out):
        for nm, g in (("potentiation", p), ("depression", n_)):
            if g is not None:
                for v in g.reshape(-1):
                    vv = v.val if isinstance(v, T.XR) else v
                    e.oblige("split:part-nonnegative", T.ge(vv, 0), part=nm, step=t)


def h_direction(e, cfg):
    """Hebbian: a lone causal pair strengthens, an anti-causal pair weakens; a negative reward flips the direction."""
    import inferno.neural as neural
    import inferno.learn as learn
    trainer, order, reward = cfg["trainer"], cfg["order"], cfg["reward"]
    dt, B = 1.0, 1
    conn = neural.LinearDense((1,), (1,), dt, synapse=neural.DeltaCurrent.partialconstructor(1.0), batch_size=B)
    conn.weight = e.sym((1, 1), torch.float32, "W0", lo=-2, hi=2)
    w0 = e.read(conn.weight).copy()
    conn.updater = conn.defaultupdater()
    neuron = scripted_neuron_class()((1,), dt, B)
    layer = neural.Serial(conn, neuron)
    e.tag(trainer=trainer, order=order, reward=reward)
    kw = dict(lr_post=1.0, lr_pre=-0.5, tc_post=20.0, tc_pre=20.0)
    if trainer == "stdp":
        tr = learn.STDP(**kw)
    elif trainer == "mstdp":
        tr = learn.MSTDP(batch_reduction=torch.sum, **kw)
    else:
        tr = learn.MSTDPET(tc_eligibility=10.0, batch_reduction=torch.sum, **kw)
    tr.register_cell("c", layer.cell)
    gap = cfg["gap"]
    pre_t, post_t = (0, gap) if order == "causal" else (gap, 0)
    for t in range(gap + 1):
        x = torch.tensor([[t == pre_t]])
        neuron.script.append(torch.tensor([[t == post_t]]))
        layer(x)
        if trainer == "stdp":
            tr()
        else:
            tr(reward, 1.0)
    conn.update()
    w1 = e.read(conn.weight)
    up = (order == "causal") == (reward > 0)
    e.oblige("direction:sign-of-change", T.gt(w1[0, 0], w0[0, 0]) if up else T.lt(w1[0, 0], w0[0, 0]))


def h_homeostasis(e, cfg):
    import inferno.neural as neural
    import inferno.learn as learn
    param, B, Tn, red = cfg["param"], cfg["B"], cfg["T"], cfg["reduction"]
    dt, lam, target = 1.0, cfg["plasticity"], 0.25
    conn = neural.LinearDense((2,), (2,), dt, synapse=neural.DeltaCurrent.partialconstructor(1.0), bias=True, delay=2.0, batch_size=B)
    conn.updater = conn.defaultupdater()
    neuron = scripted_neuron_class()((2,), dt, B)
    layer = neural.Serial(conn, neuron)
    tr = learn.LinearHomeostasis(lam, target, param, batch_reduction={"sum": torch.sum, "mean": torch.mean}[red])
    tr.register_cell("c", layer.cell)
    e.tag(trainer="homeostasis", param=param)
    hist = []
    for t in range(Tn):
        y = e.sym((B, 2), torch.bool, f"post{t}", ind=True)
        neuron.script.append(y)
        layer(torch.zeros(B, 2, dtype=torch.bool))
        hist.append(e.read(y))
    tr()
    acc = getattr(conn.updater, param)
    gp, gn = acc.pos, acc.neg
    kt, kl = K(target), K(lam)
    shape = tuple(getattr(conn, param).shape)
    pa, na = e.read(gp), e.read(gn)
    try:
        pa, na = np.broadcast_to(pa, shape), np.broadcast_to(na, shape)      # parts broadcast against the parameter when applied
    except ValueError:
        e.oblige("homeo:parts-broadcast-with-parameter", False, got=str(pa.shape))
        return
    for v in pa.reshape(-1):
        e.oblige("homeo:potentiation-nonnegative", T.ge(v, 0))
    for v in na.reshape(-1):
        e.oblige("homeo:depression-nonnegative", T.ge(v, 0))
    # documented signed rule: lambda (r* - r)/r* for weight (per output neuron), its mean over outputs for the bias, negated for delay
    for o in range(2):
        ks = []
        for b in range(B):
            rate = T.div(sum_([num(h[b, o]) for h in hist]), Tn)
            ks.append(T.mul(T.div(T.sub(kt, rate), kt), kl if param != "delay" else -kl))
        rule = sum_(ks) if red == "sum" else T.div(sum_(ks), B)
        if param == "bias":
            e.oblige("homeo:net-equals-signed-rule", T.same(T.sub(pa[o], na[o]), rule), elem=[o])
        else:
            for i in range(2):
                e.oblige("homeo:net-equals-signed-rule", T.same(T.sub(pa[o, i], na[o, i]), rule), elem=[o, i])
    if B == 1 and lam > 0:
        # direction: firing above target lowers weight/bias and raises delay (and conversely)
        rate = T.div(sum_([num(h[0, 0]) for h in hist]), Tn)
        idx = (0,) if param == "bias" else (0, 0)
        net = T.sub(pa[idx], na[idx])
        above = T.gt(rate, kt)
        want = T.lt(net, 0) if param != "delay" else T.gt(net, 0)
        e.oblige("homeo:direction-toward-target", T.bor(T.bnot(T.tob(above)), T.tob(want)))


def checks(tier):
    th = tier == "thorough"
    split = []
    signs = list(C08.SIGNS)
    for trainer in ("stdp", "triplet", "mstdp", "mstdpet"):
        for ctor in signs:
            for cell_signs in signs:
                if not th and ctor == cell_signs and ctor != "hebbian":
                    continue
                for mode in (("cumulative", "nearest") if th else ("cumulative",)):
                    if trainer == "triplet" and mode == "nearest" and cell_signs in ("potentiative", "depressive"):
                        continue      # (measured: the sign of the summed nearest-mode triplet products is left undecided by z3 within 120 s on a loaded machine)
                    sigs = ["-"] if trainer in ("stdp", "triplet") else ["scalar-", "tensor"]
                    for sg in sigs:
                        for bounded in ((False, True) if (th or ctor == "hebbian") else (False,)):
                            split.append(dict(trainer=trainer, trace=mode, signs=cell_signs, ctor_signs=ctor, cell="dense", B=(1 if sg == "tensor" else 2),
                                              reduction="sum", dt=1.0, T=3, signal=sg, per_step=True, bounded=bounded))
    # other cell kinds: direct, lateral, convolutional (weight shared over receptive fields), delayed dense
    for trainer in ("stdp", "triplet", "mstdp", "mstdpet"):
        for cell_signs in (signs if th else ("hebbian", "antihebbian")):
            for cell in ("direct", "lateral", "conv", "dense-delayed"):
                if cell == "dense-delayed" and trainer == "mstdpet":
                    continue
                c = dict(trainer=trainer, trace="cumulative", signs=cell_signs, ctor_signs=("depressive" if cell_signs == "hebbian" else "hebbian"), cell=cell.split("-")[0], B=2,
                         reduction="sum", dt=1.0, T=3, signal=("-" if trainer in ("stdp", "triplet") else "scalar-"), per_step=True, bounded=False)
                if cell == "conv":
                    c.update(geom=(2, 3, 1, 2, 2))
                if cell == "dense-delayed":
                    c.update(maxdelay=2.0, delaysteps=[[0, 1], [2, 1]], delayed=True)
                split.append(c)
    da = []
    for variant in ("da-stdp", "da-stdpd", "da-kernel", "da-kerneld", "kernel", "da-mstdp", "da-mstdpd"):
        for sg in C18.SIGNS:
            for sig in (["scalar-", "tensor"] if "mstdp" in variant else ["-"]):
                da.append(dict(variant=variant, signs=sg, cell="dense", delays=("zero" if variant == "kernel" else "symbolic"), signal=sig, B=(1 if sig == "tensor" else 2),
                               reduction="sum", dt=1.0, T=3))
    # kernel hyper-parameters given as tensors (registered as buffers of the cell state)
    for variant in ("kernel", "da-kernel", "da-kerneld"):
        for sg in (C18.SIGNS if th else ("hebbian", "antihebbian")):
            da.append(dict(variant=variant, signs=sg, cell="dense", delays=("zero" if variant == "kernel" else "symbolic"), signal="-", B=2, reduction="sum", dt=1.0, T=3, tensor_kwargs=True))
    dr = [dict(trainer=tr, order=o, reward=r, gap=g) for tr in ("stdp", "mstdp", "mstdpet") for o in ("causal", "anticausal") for r in ((1.0,) if tr == "stdp" else (1.0, -1.0))
          for g in ((1, 2, 3) if th else (2,))]
    ho = [dict(param=p, B=B, T=(4 if th else 3), reduction=red, plasticity=lam) for p in ("weight", "bias", "delay") for B, red in ((1, "mean"), (2, "sum"), (2, "mean"))
          for lam in (0.5, -0.5)]
    o = {"div_policy": "xr", "query_timeout_ms": 120000, "max_paths": 5000}
    return [Check("stdp_split", h_split, split, opts=o, timeout_s=1800), Check("kernel_split", h_da, da, opts=o, timeout_s=1800),
            Check("direction", h_direction, dr, opts=o, timeout_s=600), Check("homeostasis", h_homeostasis, ho, opts=o, timeout_s=600)]


BOUNDS = {
    "quick": {"trainers": "STDP, TripletSTDP, MSTDP, MSTDPET (constructor sign mode x per-cell override sign mode), 7 kernel/delay-adjusted variants x 4 sign modes, LinearHomeostasis on weight/bias/delay",
              "T": 3, "cells": "dense 2x2 (also with per-synapse delays), direct 2, lateral 2, Conv2D 2x3 input / 1x2 kernel / 2 filters", "batch": [1, 2], "bounding": "none and multiplicative upper/lower (limits +-3)"},
    "thorough": {"trace modes": 2, "all 16 constructor/override sign combinations with and without bounding": True, "T": 4},
}
OUTSIDE = ["kernel / delay-adjusted trainers on cells other than dense", "homeostasis targets given as tensors"]
