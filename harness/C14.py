"""C14 — configuration-path independence: setters reach the same model as the constructor.

X is constructed at configuration c1 and brought to c2 by property assignment (sequences of up
to two setter calls); Y is constructed at c2.  Concrete obligations: every getter of X reports
c2, untouched attributes keep their value, every internal history has Y's record size, step
time and duration.  Symbolic obligations: from a cleared state X and Y produce equal outputs,
states and delayed reads for T symbolic input steps (shared symbolic parameters).
"""
import itertools
from fractions import Fraction as F

import numpy as np
import torch

from symtorch.run import Check
from symtorch import terms as T
from harness import C03, C04, C17

PROPERTY = "C14"

SYN_ATTRS = ("dt", "delay", "batchsz", "inplace")


def records_of(m):
    from inferno.core.infrastructure import RecordTensor
    out = {}
    for name in dir(type(m)) + list(vars(m)):
        pass
    for name, val in list(vars(m).items()):
        if isinstance(val, RecordTensor):
            out[name] = val
    return out


def record_facts(m):
    return {n: (r.recordsz, r.dt, r.duration, bool(r.inclusive)) for n, r in records_of(m).items()}


def apply(obj, seq):
    for attr, val in seq:
        setattr(obj, attr, val)


def mk_syn(cfg, c):
    return C04.build(dict(syn=cfg["syn"], shape=(2,), dt=c["dt"], delay=c["delay"], tol=0.0, overbound=(0.0, False), B=c["batchsz"], inplace=c["inplace"], interp="previous"))


def h_synapse(e, cfg):
    c1, c2 = cfg["c1"], cfg["c2"]
    X, Y = mk_syn(cfg, c1), mk_syn(cfg, c2)
    seq = [(a, c2[a]) for a in cfg["order"] if c1[a] != c2[a]]
    e.tag(component="synapse:" + cfg["syn"], setters=",".join(a for a, _ in seq))
    before = {a: getattr(X, a) for a in SYN_ATTRS}
    apply(X, seq)
    for a in SYN_ATTRS:
        e.oblige("getter-reports-assigned", getattr(X, a) == c2[a], attr=a, got=str(getattr(X, a)), want=str(c2[a]))
    e.oblige("history-sized-like-fresh", record_facts(X) == record_facts(Y), x=str(record_facts(X)), y=str(record_facts(Y)))
    e.oblige("shape-like-fresh", tuple(X.batchedshape) == tuple(Y.batchedshape))
    X.clear(); Y.clear()
    B = c2["batchsz"]
    N = Y.spike_.recordsz
    for t in range(cfg["T"]):
        x = e.sym((B, 2), torch.bool, f"x{t}", ind=True)
        args = (x,) if cfg["syn"] != "deltaplus" else (x, e.sym((B, 2), torch.float32, f"j{t}", lo=-5, hi=5))
        ox, oy = X(*args), Y(*args)
        e.oblige_eq("output-like-fresh", ox, e.read(oy), step=t)
        e.oblige_eq("spike-like-fresh", X.spike, e.read(Y.spike), step=t)
        if N > 1:
            sel = e.sym((B, 2, 1), torch.float32, f"sel{t}", lo=-1, hi=c2["delay"] + 2 * c2["dt"])
            e.oblige_eq("delayed-current-like-fresh", X.current_at(sel), e.read(Y.current_at(sel)), split=True, step=t)
            e.oblige_eq("delayed-spike-like-fresh", X.spike_at(sel), e.read(Y.spike_at(sel)), split=True, step=t)


def h_neuron(e, cfg):
    cls = cfg["cls"]
    hp = C03.HP[cls][0]
    (dt1, b1), (dt2, b2) = cfg["c1"], cfg["c2"]
    X, Y = C03.build(cls, (2,), dt1, 2.0, hp, b1), C03.build(cls, (2,), dt2, 2.0, hp, b2)
    e.tag(component="neuron:" + cls)
    for attr, val in cfg["order"]:
        setattr(X, attr, val)
    e.oblige("getter-reports-assigned", X.dt == dt2 and X.batchsz == b2, got=f"{X.dt},{X.batchsz}")
    e.oblige("shape-like-fresh", tuple(X.voltage.shape) == tuple(Y.voltage.shape) and tuple(X.refrac.shape) == tuple(Y.refrac.shape), got=str(tuple(X.voltage.shape)))
    X.clear(); Y.clear()
    X.eval(); Y.eval()
    for t in range(cfg["T"]):
        I = e.sym((b2, 2), torch.float32, f"I{t}", lo=-100, hi=100)
        e.oblige_eq("output-like-fresh", X(I), e.read(Y(I)), step=t)
        e.oblige_eq("voltage-like-fresh", X.voltage, e.read(Y.voltage), step=t)


def h_connection(e, cfg):
    import inferno.neural as neural
    kind = cfg["kind"]
    c1, c2 = cfg["c1"], cfg["c2"]

    def mk(c, syn):
        ctor = {"delta": neural.DeltaCurrent.partialconstructor(1.5), "single": neural.SingleExponentialCurrent.partialconstructor(1.5, 4.0)}[syn]
        if kind == "dense":
            return neural.LinearDense((2,), (2,), c["dt"], synapse=ctor, delay=c["delay"], batch_size=c["batchsz"], bias=True)
        if kind == "direct":
            return neural.LinearDirect((2,), c["dt"], synapse=ctor, delay=c["delay"], batch_size=c["batchsz"])
        return neural.LinearLateral((2,), c["dt"], synapse=ctor, delay=c["delay"], batch_size=c["batchsz"])
    X, Y = mk(c1, c1["syn"]), mk(c2, c2["syn"])
    P = C17.Params(e)
    P.give("w", X); P.give("w", Y)
    e.tag(component="connection:" + kind, setters=",".join(cfg["order"]))
    for a in cfg["order"]:
        if a == "synapse":
            ctor = {"delta": neural.DeltaCurrent.partialconstructor(1.5), "single": neural.SingleExponentialCurrent.partialconstructor(1.5, 4.0)}[c2["syn"]]
            X.synapse = ctor((2,), X.dt, (X.delayedby or 0.0), X.batchsz)
        elif a == "delay":
            X.synapse.delay = c2["delay"]
        else:
            setattr(X, a, c2[a])
    e.oblige("getter-reports-assigned", X.dt == c2["dt"] and X.batchsz == c2["batchsz"] and type(X.synapse) is type(Y.synapse), got=f"{X.dt},{X.batchsz},{type(X.synapse).__name__}")
    e.oblige("delayedby-like-fresh", X.delayedby == Y.delayedby, got=str(X.delayedby), want=str(Y.delayedby))
    e.oblige("history-sized-like-fresh", record_facts(X.synapse) == record_facts(Y.synapse), x=str(record_facts(X.synapse)), y=str(record_facts(Y.synapse)))
    X.clear(); Y.clear()
    B = c2["batchsz"]
    for t in range(cfg["T"]):
        x = e.sym((B, 2), torch.bool, f"x{t}", ind=True)
        e.oblige_eq("output-like-fresh", X(x), e.read(Y(x)), split=True, step=t)


def h_reducer(e, cfg):
    import inferno.observe as ob
    k = cfg["reducer"]
    c1, c2 = cfg["c1"], cfg["c2"]

    def mk(c):
        kw = dict(duration=c["duration"], inplace=c["inplace"], inclusive=True)
        if k == "cumulative":
            return ob.CumulativeTraceReducer(c["dt"], 3.0, 1.25, True, **kw)
        if k == "passthrough":
            return ob.PassthroughReducer(c["dt"], **kw)
        return ob.EMAReducer(c["dt"], 0.3, **kw)
    X, Y = mk(c1), mk(c2)
    seq = [(a, c2[a]) for a in cfg["order"] if c1[a] != c2[a]]
    e.tag(component="reducer:" + k, setters=",".join(a for a, _ in seq))
    apply(X, seq)
    for a in ("dt", "duration", "inplace"):
        e.oblige("getter-reports-assigned", getattr(X, a) == c2[a], attr=a, got=str(getattr(X, a)), want=str(c2[a]))
    e.oblige("history-sized-like-fresh", record_facts(X) == record_facts(Y), x=str(record_facts(X)), y=str(record_facts(Y)))
    X.clear(); Y.clear()
    for t in range(cfg["T"]):
        x = e.sym((2,), torch.bool if k == "cumulative" else torch.float32, f"x{t}", **({"ind": True} if k == "cumulative" else {"lo": -3, "hi": 3}))
        X(x); Y(x)
        e.oblige_eq("peek-like-fresh", X.peek(), e.read(Y.peek()), step=t)
    if Y.data_.recordsz > 1:
        tt = e.sym((2,), torch.float32, "vt", lo=0, hi=c2["dt"] * min(cfg["T"] - 1, Y.data_.recordsz - 1))
        e.oblige_eq("view-like-fresh", X.view(tt), e.read(Y.view(tt)), split=True)
        e.oblige_eq("dump-like-fresh", X.dump(), e.read(Y.dump()))


def h_dtype(e, cfg):
    """`.to(dtype)`: state tensors follow, behaviour equals a fresh component moved the same way."""
    syn = cfg["syn"]
    c = dict(dt=1.0, delay=2.0, batchsz=1, inplace=False)
    X, Y = mk_syn(dict(syn=syn), c), mk_syn(dict(syn=syn), c)
    e.tag(component="synapse-to:" + syn)
    X(e.sym((1, 2), torch.bool, "w", ind=True))
    X.to(torch.float64); Y.to(torch.float64)
    X.clear()
    for n, r in records_of(X).items():
        if r.value.dtype.is_floating_point:
            e.oblige("dtype-follows-to", r.value.dtype == torch.float64, record=n, got=str(r.value.dtype))
    for t in range(2):
        x = e.sym((1, 2), torch.bool, f"x{t}", ind=True)
        args = (x,) if syn != "deltaplus" else (x, e.sym((1, 2), torch.float64, f"j{t}", lo=-5, hi=5))
        e.oblige_eq("output-like-fresh", X(*args), e.read(Y(*args)), step=t)


def h_record(e, cfg):
    """RecordTensor level (where `inclusive` is assignable): dt / duration / inclusive setters in any order vs a freshly created record."""
    from inferno.core.infrastructure import Module, RecordTensor
    c1, c2 = cfg["c1"], cfg["c2"]

    def mk(c):
        m = Module()
        RecordTensor.create(m, "rec", c["dt"], c["duration"], torch.zeros(2), inclusive=c["inclusive"])
        return m
    mx, my = mk(c1), mk(c2)       # (the record refers to its owner weakly: keep the modules alive)
    X, Y = mx.rec, my.rec
    seq = [(a, c2[a]) for a in cfg["order"] if c1[a] != c2[a]]
    e.tag(component="record", setters=",".join(a for a, _ in seq))
    if cfg.get("prefill"):
        X.push(e.sym((2,), torch.float32, "pre", lo=-3, hi=3))
    apply(X, seq)
    for a in ("dt", "duration", "inclusive"):
        e.oblige("getter-reports-assigned", getattr(X, a) == c2[a], attr=a, got=str(getattr(X, a)), want=str(c2[a]))
    fx, fy = (X.recordsz, X.dt, X.duration, bool(X.inclusive)), (Y.recordsz, Y.dt, Y.duration, bool(Y.inclusive))
    e.oblige("history-sized-like-fresh", fx == fy, x=str(fx), y=str(fy))
    if fx[0] != fy[0]:
        return
    X.reset(0.0); Y.reset(0.0)
    for t in range(cfg["T"]):
        x = e.sym((2,), torch.float32, f"x{t}", lo=-3, hi=3)
        X.push(x); Y.push(x)
        for k in range(Y.recordsz):
            e.oblige_eq("read-like-fresh", X.read(k), e.read(Y.read(k)), step=t, offset=k)


def checks(tier):
    th = tier == "thorough"
    base = dict(dt=1.0, delay=2.0, batchsz=1, inplace=False)
    alts = dict(dt=[0.5, 1.3, 0.9], delay=[0.0, 1.0, 2.5, 3.0], batchsz=[2], inplace=[True])
    syn = []
    for s in C04.SYN:
        targets = []
        for a, vals in alts.items():
            for v in vals:
                targets.append(dict(base, **{a: v}))
        for (a, va), (b, vb) in itertools.combinations([(a, v) for a, vals in alts.items() for v in vals[:2]], 2):
            if a != b:
                targets.append(dict(base, **{a: va, b: vb}))
        if not th:
            targets = targets[::2] if s not in ("delta", "single") else targets
        for c2 in targets:
            changed = [a for a in SYN_ATTRS if base[a] != c2[a]]
            for order in (itertools.permutations(changed) if th else [tuple(changed)]):
                syn.append(dict(syn=s, c1=dict(base), c2=c2, order=list(order), T=3))
                syn.append(dict(syn=s, c1=c2, c2=dict(base), order=list(order), T=3))
    neu = []
    for cls in C03.HP:
        for c1, c2 in (((1.0, 1), (0.5, 1)), ((1.0, 1), (1.0, 2)), ((1.0, 2), (1.3, 1))):
            order = [("dt", c2[0])] * (c1[0] != c2[0]) + [("batchsz", c2[1])] * (c1[1] != c2[1])
            neu.append(dict(cls=cls, c1=c1, c2=c2, order=order, T=2))
    con = []
    cb = dict(dt=1.0, delay=2.0, batchsz=1, syn="delta")
    for kind in ("dense", "direct", "lateral"):
        for c2, order in ((dict(cb, dt=0.5), ["dt"]), (dict(cb, batchsz=2), ["batchsz"]), (dict(cb, syn="single"), ["synapse"]), (dict(cb, delay=3.0), ["delay"]),
                          (dict(cb, dt=1.3, batchsz=2), ["dt", "batchsz"]), (dict(cb, delay=1.0, dt=0.5), ["delay", "dt"])):
            con.append(dict(kind=kind, c1=dict(cb), c2=c2, order=order, T=3))
    red = []
    rb = dict(dt=1.0, duration=2.0, inplace=False)
    for k in ("cumulative", "passthrough", "ema"):
        for c2 in (dict(rb, dt=0.5), dict(rb, dt=1.3), dict(rb, duration=3.0), dict(rb, duration=1.0), dict(rb, inplace=True), dict(rb, dt=0.5, duration=1.0), dict(rb, duration=3.0, dt=1.3)):
            changed = [a for a in ("dt", "duration", "inplace") if rb[a] != c2[a]]
            for order in itertools.permutations(changed):
                red.append(dict(reducer=k, c1=dict(rb), c2=c2, order=list(order), T=3))
    dty = [dict(syn=s) for s in C04.SYN]
    rec = []
    rcfgs = [dict(dt=dt, duration=du, inclusive=inc) for dt in (1.0, 0.5, 1.3) for du in (0.0, 1.0, 2.5) for inc in (False, True)]
    for c1 in rcfgs:
        for c2 in rcfgs:
            changed = [a for a in ("dt", "duration", "inclusive") if c1[a] != c2[a]]
            if not changed or (not th and ("inclusive" not in changed or len(changed) > 2)):
                continue
            for order in (itertools.permutations(changed) if (th or len(changed) == 2) else [tuple(changed)]):
                rec.append(dict(c1=c1, c2=c2, order=list(order), T=3, prefill=bool(len(rec) % 2)))
    o = {"div_policy": "xr", "query_timeout_ms": 120000}
    return [Check("synapse_setters", h_synapse, syn, opts=o, timeout_s=900), Check("neuron_setters", h_neuron, neu, opts=o, timeout_s=900),
            Check("connection_setters", h_connection, con, opts=o, timeout_s=900), Check("reducer_setters", h_reducer, red, opts=o, timeout_s=900),
            Check("dtype_to", h_dtype, dty, opts=o, timeout_s=600), Check("record_setters", h_record, rec, opts=o, timeout_s=900)]


BOUNDS = {
    "quick": {"synapses": "4 classes; single-attribute changes of dt in {0.5,1.3,0.9}, delay in {0,1,2.5,3}, batchsz 2, inplace, and two-attribute sequences, in both directions from (1.0, 2.0, 1, False)",
              "neurons": "8 classes, dt and batchsz", "connections": "dense/direct/lateral: dt, batchsz, replacement synapse, synapse delay, two-setter sequences",
              "reducers": "cumulative trace / passthrough / EMA: dt, duration, inplace, all orders",
              "records": "RecordTensor dt in {1.0,0.5,1.3} x duration in {0,1,2.5} x inclusive: every pair that toggles inclusive (alone or with one other attribute, both orders), initialised or not", "inputs": "T = 2-3 symbolic steps + delayed reads with a symbolic selector"},
    "thorough": {"all permutations of the changed attributes": True},
}
OUTSIDE = ["layers (assembled from the components above)", "devices", "setter sequences longer than 2-3"]
