"""C12 — checkpoint at any step, restore into another instance, and the future is identical.

Model A runs k symbolic steps; its state dictionaries (layer + trainer) are snapshotted
(tensors cloned, extra state deep-copied: the stub for torch.save/load); model B of the same
configuration is fresh-plus-one-warm-up-step or already run j steps on OTHER symbolic data;
B loads the snapshot; both then run m more steps on the same symbolic inputs.  Every entry of
the two state dictionaries (ring-buffer contents AND write positions, reducer flags and
counters, adaptations, weights) and every output must agree after the load and after each step.
"""
import copy
from fractions import Fraction as F

import numpy as np
import torch

from symtorch.run import Check
from symtorch import terms as T
from harness import C17

PROPERTY = "C12"
DT = 1.0


def snapshot(module):
    sd = module.state_dict()
    out = {}
    for k, v in sd.items():
        if isinstance(v, torch.Tensor):
            with torch.no_grad():
                out[k] = v.detach().clone()
        else:
            out[k] = copy.deepcopy(v)
    return out


def compare_sd(e, a, b, label, **sig):
    sa, sb = a.state_dict(), b.state_dict()
    e.oblige(label + ":same-keys", list(sa.keys()) == list(sb.keys()), missing=str(sorted(set(sa) ^ set(sb)))[:300], **sig)
    for k in sa:
        if k not in sb:
            continue
        va, vb = sa[k], sb[k]
        if isinstance(va, torch.Tensor):
            if tuple(va.shape) != tuple(vb.shape):
                e.oblige(label + ":tensor-shape", False, key=k, a=str(tuple(va.shape)), b=str(tuple(vb.shape)), **sig)
            else:
                e.oblige_eq(label + ":tensor", vb, e.read(va), key=k, **sig)
        else:
            e.oblige(label + ":extra", _plain(va) == _plain(vb), key=k, a=str(_plain(va))[:200], b=str(_plain(vb))[:200], **sig)


def _plain(x):
    if isinstance(x, dict):
        return {k: _plain(v) for k, v in x.items()}
    if isinstance(x, (list, tuple)):
        return [_plain(v) for v in x]
    return x


def build(e, cfg, P):
    import inferno.neural as neural
    import inferno.learn as learn
    import inferno.observe as observe
    B = cfg["B"]
    syn_inplace = cfg["inplace"]
    ctors = {"delta": lambda: neural.DeltaCurrent.partialconstructor(20.0, inplace=syn_inplace),
             "deltaplus": lambda: neural.DeltaPlusCurrent.partialconstructor(20.0, inplace=syn_inplace),
             "single": lambda: neural.SingleExponentialCurrent.partialconstructor(30.0, 3.0, inplace=syn_inplace),
             "double": lambda: neural.DoubleExponentialCurrent.partialconstructor(30.0, 6.0, 2.0, inplace=syn_inplace)}
    delay = cfg["delay"]

    def conn(nin, nout, name, bias=False):
        c = neural.LinearDense((nin,), (nout,), DT, synapse=ctors[cfg["syn"]](), bias=bias, delay=delay, batch_size=B)
        P.give(name, c)
        if delay is not None:
            c.delay = torch.tensor([[0.0, 1.0, 2.0][: nin]] * nout)[:, :nin] * DT if nin <= 3 else c.delay
        c.updater = c.defaultupdater(exclude_delay=True, exclude_bias=True)
        return c

    def neuron(n):
        kind = cfg["neuron"]
        if kind == "adex":
            return neural.AdEx((n,), DT, rest_v=-60.0, rheobase_v=-50.0, sharpness=2.0, reset_v=-65.0, thresh_v=-40.0, refrac_t=1.0, tc_membrane=20.0, tc_adaptation=30.0,
                               voltage_coupling=0.1, spike_increment=1.5, batch_size=B)
        return C17.mk_neuron(kind, n, B)
    if cfg["layer"] == "serial":
        c, nu = conn(3, 2, "c", True), neuron(2)
        layer = neural.Serial(c, nu)
        watched = nu
        cells = [layer.cell]
    else:
        ff, lat, fb = conn(3, 2, "ff"), conn(2, 2, "lat"), conn(2, 2, "fb", True)
        watched = neuron(2)
        layer = neural.RecurrentSerial(ff, lat, fb, watched, C17.mk_neuron("lif", 2, B))
        cells = [layer.feedfwd_cell]
    trainer = None
    if cfg["trainer"] == "stdp":
        trainer = learn.STDP(1.0, -0.5, 20.0, 15.0, delayed=(delay is not None), batch_reduction=torch.mean)
    elif cfg["trainer"] == "mstdpet":
        trainer = learn.MSTDPET(1.0, -0.5, 20.0, 15.0, 10.0, batch_reduction=torch.sum)
    elif cfg["trainer"] == "da-stdp" and delay is not None:
        trainer = learn.DelayAdjustedSTDP(1.0, -0.5, 20.0, 15.0, batch_reduction=torch.mean)
    if trainer is not None:
        for i, c in enumerate(cells):
            trainer.register_cell(f"c{i}", c)
    # a stand-alone monitor with history (reducer state and counters)
    mon = observe.InputMonitor(observe.CAReducer(DT, duration=2 * DT, inclusive=True, inplace=syn_inplace), layer)      # 3-slot ring, in-place or not
    # a single-slot (duration 0) running average of a persistent float state: its buffer must stay its own (no storage shared with the neuron)
    mon2 = observe.StateMonitor(observe.EMAReducer(DT, 0.3, duration=0.0, inplace=(cfg["j"] != 1)), "voltage", watched)      # out-of-place exactly in the targets that were warmed up by a single step
    return layer, trainer, mon, mon2


def run_step(e, cfg, model, x):
    layer, trainer, mon, mon2 = model
    out = layer(x)
    if trainer is not None:
        if cfg["trainer"] == "mstdpet":
            trainer(0.5, 1.0)
        else:
            trainer()
        layer.update()
    return out


def flat(o):
    return list(o) if isinstance(o, tuple) else [o]


def h_checkpoint(e, cfg):
    B, k, j, m = cfg["B"], cfg["k"], cfg["j"], cfg["m"]
    e.tag(layer=cfg["layer"], syn=cfg["syn"], neuron=cfg["neuron"], trainer=cfg["trainer"], k=k, j=j)
    P = C17.Params(e)
    A = build(e, cfg, P)
    Bm = build(e, cfg, P)
    for t in range(k):
        run_step(e, cfg, A, e.sym((B, 3), torch.bool, f"a{t}", ind=True))
    if cfg.get("target_eval"):
        Bm[0].eval()                # "in an arbitrary prior state": the target was last used for evaluation (no adaptation / learning updates)
    for t in range(max(j, 1)):      # the target has seen at least one step (lazily shaped recorders), on OTHER data
        run_step(e, cfg, Bm, e.sym((B, 3), torch.bool, f"o{t}", ind=True))
    if cfg.get("target_eval"):
        Bm[0].train()
    if k == 0:
        run_step(e, cfg, A, e.sym((B, 3), torch.bool, "a_init", ind=True))      # shapes exist in the checkpoint as well
    from harness.common import witness_any
    if cfg["layer"] == "recurrent" and k >= 2 and cfg["syn"] != "double" and cfg["delay"] is None:
        # (with a double-exponential rise or delayed synapses no feedback spike can be pending after 2-4 steps: not demanded there)
        witness_any(e, "checkpoint:feedback-spikes-pending-at-the-checkpoint", A[0].feedback_spikes)
    snaps = [snapshot(A[0]), snapshot(A[1]) if A[1] is not None else None, snapshot(A[2]), snapshot(A[3])]
    Bm[0].load_state_dict(snaps[0])
    if Bm[1] is not None:
        Bm[1].load_state_dict(snaps[1])
    Bm[2].load_state_dict(snaps[2])
    Bm[3].load_state_dict(snaps[3])
    compare_sd(e, A[0], Bm[0], "restored:layer")
    if A[1] is not None:
        compare_sd(e, A[1], Bm[1], "restored:trainer")
    compare_sd(e, A[2], Bm[2], "restored:monitor")
    compare_sd(e, A[3], Bm[3], "restored:state-monitor")
    for t in range(m):
        x = e.sym((B, 3), torch.bool, f"x{t}", ind=True)
        oa, ob = flat(run_step(e, cfg, A, x)), flat(run_step(e, cfg, Bm, x))
        witness_any(e, "future:a-neuron-spikes-after-the-restore", *oa)
        for i, (u, v) in enumerate(zip(oa, ob)):
            e.oblige_eq("future:output", v, e.read(u), step=t, out=i)
        compare_sd(e, A[0], Bm[0], "future:layer", step=t)
        if A[1] is not None:
            compare_sd(e, A[1], Bm[1], "future:trainer", step=t)
        compare_sd(e, A[2], Bm[2], "future:monitor", step=t)
        compare_sd(e, A[3], Bm[3], "future:state-monitor", step=t)
        e.oblige_eq("future:monitor-view", Bm[2].peek(), e.read(A[2].peek()), step=t)


def h_classifier(e, cfg):
    """Derived (non-persistent) classifier buffers are recomputed on load, and the restored
    classifier infers and learns exactly like the uninterrupted one.

    source: "assigned" (rates set directly, symbolic), "fresh" (checkpoint at step 0) or
    "trained" (k labelled forward() calls on symbolic spike rates); the target is in an
    arbitrary prior state (symbolic rates, and it has already been used for inference);
    after the load both receive the same m labelled forward() calls."""
    import inferno.learn as learn
    n, K_, src = cfg["n"], cfg["classes"], cfg["source"]
    prop = cfg["proportional"]
    A = learn.MaxRateClassifier((n,), K_, decay=cfg.get("decay", 0.0))
    Bc = learn.MaxRateClassifier((n,), K_, decay=cfg.get("decay", 0.0))
    e.tag(component="classifier", source=src, proportional=prop)
    Bc.rates = e.sym((n, K_), torch.float32, "Rb", lo=0, hi=1)        # target in an arbitrary prior state
    if cfg.get("target_used", True):
        Bc.regress(e.sym((1, n), torch.float32, "xb", lo=0, hi=1), prop)
        Bc.classify(e.sym((1, n), torch.float32, "xc", lo=0, hi=1), prop)
    if src == "assigned":
        A.rates = e.sym((n, K_), torch.float32, "Ra", lo=0, hi=1)
    elif src == "trained":
        for t, lab in enumerate(cfg["labels"]):
            A(e.sym((len(lab), n), torch.float32, f"xa{t}", lo=0, hi=1), torch.tensor(lab), logits=None)
    Bc.load_state_dict(snapshot(A))
    e.oblige_eq("classifier:rates", Bc.rates, e.read(A.rates))
    if src != "fresh":
        # (a never-updated classifier reports zero occurrences by construction; what must agree for it is the behaviour below)
        e.oblige_eq("classifier:proportions", Bc.proportions, e.read(A.proportions), split=True)
        e.oblige_eq("classifier:assignments", Bc.assignments, e.read(A.assignments), split=True)
        e.oblige_eq("classifier:occurrences", Bc.occurrences, e.read(A.occurrences), split=True)
    x = e.sym((2, n), torch.float32, "x", lo=0, hi=1)
    e.oblige_eq("classifier:logits", Bc.regress(x, prop), e.read(A.regress(x, prop)), split=True)
    e.oblige_eq("classifier:labels", Bc.classify(x, prop), e.read(A.classify(x, prop)), split=True)
    for t, lab in enumerate(cfg.get("future", ())):
        xf = e.sym((len(lab), n), torch.float32, f"xf{t}", lo=0, hi=1)
        ra = A(xf, torch.tensor(lab), logits=True, proportional=prop)
        rb = Bc(xf, torch.tensor(lab), logits=True, proportional=prop)
        e.oblige_eq("classifier:future-logits", rb[1], e.read(ra[1]), split=True, step=t)
        e.oblige_eq("classifier:future-labels", rb[0], e.read(ra[0]), split=True, step=t)
        e.oblige_eq("classifier:future-rates", Bc.rates, e.read(A.rates), split=True, step=t)
        e.oblige_eq("classifier:future-occurrences", Bc.occurrences, e.read(A.occurrences), split=True, step=t)


def checks(tier):
    th = tier == "thorough"
    cfgs = []
    for layer in ("serial", "recurrent"):
        for syn in ("delta", "deltaplus", "single", "double"):
            for neuron in ("lif", "alif", "adex"):
                for delay in (None, 2.0):
                    for trainer in ("none", "stdp", "mstdpet", "da-stdp"):
                        if trainer == "da-stdp" and delay is None:
                            continue
                        if not th:
                            # quick: every component appears, not every combination
                            keep = (layer == "serial" and neuron == "lif") or (syn == "single" and delay is not None) or (trainer == "none" and syn == "delta")
                            if not keep:
                                continue
                        N = 3 if delay is not None else 3
                        ks = range(0, N + 2) if (th or (delay is not None and trainer in ("stdp", "none") and layer == "serial")) else (0, 2, 3)
                        for k in ks:
                            for j in ((1, 2) if (th or k in (0, 3)) else (2,)):
                                cfgs.append(dict(layer=layer, syn=syn, neuron=neuron, delay=delay, trainer=trainer, inplace=bool((k + j) % 2), k=k, j=j, m=2, B=1))
    # targets that were last stepped in eval mode (adaptive neurons: no adaptation update in those steps)
    for layer in ("serial", "recurrent"):
        for neuron in (("alif", "adex", "lif") if th else ("alif", "adex")):
            for k, j in ((2, 1), (3, 2)):
                cfgs.append(dict(layer=layer, syn="delta", neuron=neuron, delay=None, trainer="none", inplace=bool(k % 2), k=k, j=j, m=2, B=1, target_eval=True))
    cl = []
    for n, c in ((2, 2), (3, 2), (2, 3)):
        for prop in (True, False):
            cl.append(dict(n=n, classes=c, source="assigned", proportional=prop, future=((0, 1),)))
            cl.append(dict(n=n, classes=c, source="fresh", proportional=prop, future=((c - 1,), (0,))))
            for labels in (((0,),), ((c - 1, 0),), ((0,), (c - 1,))):      # (a third training call: z3 answers unknown while enumerating the argmax values)
                for decay in ((0.0, 0.5) if th else (0.0,)):
                    cl.append(dict(n=n, classes=c, source="trained", proportional=prop, labels=labels, decay=decay, future=((c - 1,),) + (((0, 0),) if th else ())))
    o = {"div_policy": "xr", "max_paths": 20000, "query_timeout_ms": 120000}
    return [Check("checkpoint", h_checkpoint, cfgs, opts=o, timeout_s=2400), Check("classifier", h_classifier, cl, opts=o, timeout_s=1200)]


BOUNDS = {
    "quick": {"checkpoint step k": "0..4 (ring size 3) for the delayed STDP / no-trainer serial models, {0,2,3} otherwise", "target prior steps j": "1-2 (also with the target in eval mode during them, for adaptive neurons)", "steps after restore m": 2,
              "components": "Serial / RecurrentSerial x 4 synapses x LIF/ALIF/AdEx x delay none/2dt (heterogeneous per-synapse) x trainer none/STDP(delayed)/MSTDPET/DelayAdjustedSTDP x in-place/not "
                            "(every component appears; not every combination) + an input monitor with a 3-slot CA reducer + a state monitor (single-slot EMA of the neuron voltage); MaxRateClassifier (source fresh / rates assigned / trained by 1-2 labelled calls on symbolic rates; target with arbitrary rates and already used for inference; 1 labelled call after the restore; proportional on/off)",
              "sizes": "3 inputs, 2 neurons, batch 1"},
    "thorough": {"all combinations": True, "k": "0..4", "j": [1, 2]},
}
OUTSIDE = ["torch.save / pickle themselves (identity on tensor contents, deep copy of extra state)", "accumulated but not yet applied updates (updates are applied every step)",
           "models larger than 3 -> 2"]
