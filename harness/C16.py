"""C16 — state hooks fire exactly when armed and enforce clamping / normalisation.

(a) lifecycle programs over {register, deregister, train, eval, call module, manual call
(force, ignore_mode), delete hook + collect}, enumerated exhaustively up to a length bound
through solver-driven choice points, for every enable-flag combination and pre/post placement,
against a reference predicate "registered and mode enabled"; no dangling handles.
(b) post-conditions with SYMBOLIC attribute tensors: after Clamping every element lies in
[min, max]; after Normalization the p-norm along the chosen dims equals |scale| (p in {1, 2,
inf}; zero vectors stay zero).
"""
import gc
from fractions import Fraction as F

import numpy as np
import torch
import torch.nn as nn

from symtorch.run import Check
from symtorch import terms as T
from harness.common import K

PROPERTY = "C16"
OPS = ["register", "deregister", "train", "eval", "call", "manual", "delete"]


def probe_classes():
    from inferno import StateHook, Module

    class Target(Module):
        def __init__(self):
            Module.__init__(self)
            self.calls = 0
            self.seen = []

        def forward(self, x=None):
            self.calls += 1
            return self.calls

    class Probe(StateHook):
        def __init__(self, module, **kw):
            StateHook.__init__(self, module, **kw)

        def hook(self, module):
            module.seen.append(module.calls)

    return Target, Probe


def h_lifecycle(e, cfg):
    Target, Probe = probe_classes()
    m = Target()
    base_handles = len(m._forward_hooks) + len(m._forward_pre_hooks)
    tu, eu, pre = cfg["train_update"], cfg["eval_update"], cfg["as_prehook"]
    hook = Probe(m, train_update=tu, eval_update=eu, as_prehook=pre)
    e.tag(train_update=tu, eval_update=eu, as_prehook=pre)
    registered, alive, expected = False, True, []
    prog = []
    plan = list(cfg["prefix"]) + [None] * cfg["free"]
    ops = OPS + (["flip-train-flag", "flip-eval-flag"] if cfg.get("flags") else [])
    for step, fixed in enumerate(plan):
        op = fixed if fixed is not None else ops[e.choose(len(ops))]
        prog.append(op)
        if op in ("flip-train-flag", "flip-eval-flag"):
            # the enable flags are assignable properties: a later module call obeys the CURRENT flags
            if alive:
                if op == "flip-train-flag":
                    tu = not tu
                    hook.trainexec = tu
                else:
                    eu = not eu
                    hook.evalexec = eu
        training = m.training
        enabled = (tu and training) or (eu and not training)
        if op == "register":
            if alive:
                hook.register()
                registered = True
        elif op == "deregister":
            if alive:
                hook.deregister()
                registered = False
        elif op == "train":
            m.train()
        elif op == "eval":
            m.eval()
        elif op == "call":
            before = m.calls
            m()
            if alive and registered and enabled:
                expected.append(before if pre else before + 1)
        elif op == "manual":
            if alive:
                k = e.choose(4)
                force, ignore = bool(k & 1), bool(k & 2)
                prog[-1] = f"manual(force={force},ignore_mode={ignore})"
                hook(force=force, ignore_mode=ignore)
                if (registered or force) and (ignore or enabled):
                    expected.append(m.calls)
        elif op == "delete":
            if alive:
                del hook
                gc.collect()
                alive, registered = False, False
        handles = len(m._forward_hooks) + len(m._forward_pre_hooks)
        e.oblige("handles-match-registration", handles == base_handles + (1 if registered else 0), program=" ".join(prog), handles=handles)
        e.oblige("runs-exactly-when-armed", list(m.seen) == expected, program=" ".join(prog), seen=str(m.seen), expected=str(expected))
    if alive:
        e.oblige("registered-flag", hook.registered == registered, program=" ".join(prog))


def h_clamp(e, cfg):
    from inferno.neural import Clamping
    from inferno import Module
    lo, hi = cfg["min"], cfg["max"]

    import inferno.neural as neural

    class Holder(Module):
        def __init__(self):
            Module.__init__(self)
            self.register_buffer("w", torch.zeros(2, 2))
            self.inner = neural.LinearDense((2,), (2,), 1.0, synapse=neural.DeltaCurrent.partialconstructor(1.0))
            # a target three levels down the attribute path
            self.mid = Module()
            self.mid.leaf = Module()
            self.mid.leaf.register_buffer("w", torch.zeros(2, 2))

        def forward(self):
            return None
    m = Holder()
    e.tag(hook="clamp", min=str(lo), max=str(hi), attr=cfg["attr"])
    W = e.sym((2, 2), torch.float32, "W", lo=-10, hi=10)
    if cfg["attr"] == "w":
        m.w = W
    elif cfg["attr"] == "mid.leaf.w":
        m.mid.leaf.w = W
    else:
        m.inner.weight = W
    h = Clamping(m, cfg["attr"], min=lo, max=hi, as_prehook=cfg["as_prehook"])
    h.register()
    m()
    wa = e.read(m.w if cfg["attr"] == "w" else (m.mid.leaf.w if cfg["attr"] == "mid.leaf.w" else m.inner.weight))
    for v, v0 in zip(wa.reshape(-1), e.read(W).reshape(-1)):
        if lo is not None:
            e.oblige("clamp:lower", T.ge(v, K(lo)))
        if hi is not None:
            e.oblige("clamp:upper", T.le(v, K(hi)))
        inside = T.band(True if lo is None else T.tob(T.ge(v0, K(lo))), True if hi is None else T.tob(T.le(v0, K(hi))))
        e.oblige("clamp:inside-unchanged", T.bor(T.bnot(inside), T.tob(T.eq(v, v0))))


def h_normalize(e, cfg):
    from inferno.neural import Normalization
    from inferno import Module
    p, scale, dim, shape = cfg["order"], cfg["scale"], cfg["dim"], tuple(cfg["shape"])

    class Holder(Module):
        def __init__(self):
            Module.__init__(self)
            self.register_buffer("w", torch.zeros(shape))

        def forward(self):
            return None
    m = Holder()
    e.tag(hook="normalize", order=str(p), scale=scale, dim=str(dim))
    W = e.sym(shape, torch.float32, "W", lo=-10, hi=10)
    m.w = W
    w0 = e.read(W)
    h = Normalization(m, "w", p, scale, dim)
    h.register()
    m()
    wa = e.read(m.w)
    dims = list(range(len(shape))) if dim is None else ([dim] if isinstance(dim, int) else list(dim))
    dims = [d % len(shape) for d in dims]
    rest = [d for d in range(len(shape)) if d not in dims]
    for ridx in (np.ndindex(*[shape[d] for d in rest]) if rest else [()]):
        sel = [slice(None)] * len(shape)
        for d, i in zip(rest, ridx):
            sel[d] = i
        vec, vec0 = wa[tuple(sel)].reshape(-1), w0[tuple(sel)].reshape(-1)
        def norm(v):
            if p == 1:
                acc = F(0)
                for x in v:
                    acc = T.add(acc, T.abs_(x))
                return acc, None
            if p == 2:
                acc = F(0)
                for x in v:
                    acc = T.add(acc, T.mul(x, x))
                return None, acc          # squared norm
            acc = T.abs_(v[0])
            for x in v[1:]:
                acc = T.maximum(acc, T.abs_(x))
            return acc, None
        n0, sq0 = norm(vec0)
        n1, sq1 = norm(vec)
        eps = F(1, 10**6)
        if p == 2:
            # decomposed so that z3 never has to square a sum through sqrt:
            #  (i)  the code divides every element by N = max(sqrt(S), eps)            (same uninterpreted sqrt term on both sides)
            #  (ii) algebra, independent of the code: n >= 0, n^2 = S > 0  =>  sum_i (c x_i / n)^2 = c^2   (n universally quantified)
            #  (iii) sqrt(S) >= eps whenever S >= eps^2 (instantiated sqrt axioms), so N = sqrt(S) off the epsilon floor
            iszero = T.eq(sq0, 0)
            N_ = T.maximum(T.sqrt_(sq0), K(1e-12))
            for x1, x0 in zip(vec, vec0):
                e.oblige("normalize:elementwise-quotient", T.same(x1, T.mul(K(scale), T.div(x0, N_))), slice=list(ridx))
            e.oblige("normalize:sqrt-above-floor", T.bor(T.bnot(T.tob(T.ge(sq0, F(1, 10**6)))), T.tob(T.eq(N_, T.sqrt_(sq0)))), slice=list(ridx))
            n = e.scalar(f"n{len(ridx) and ridx[0]}", "f", lo=0)
            acc = F(0)
            for x0 in vec0:
                q = T.mul(K(scale), T.div(x0, n))
                acc = T.add(acc, T.mul(q, q))
            pre = T.band(T.tob(T.eq(T.mul(n, n), sq0)), T.tob(T.gt(sq0, 0)))
            e.oblige("normalize:norm-equals-scale", T.bor(T.bnot(pre), T.tob(T.eq(acc, K(scale) * K(scale)))), slice=list(ridx), lemma="quotient by n with n^2 = S has norm |scale|")
        else:
            nonzero = T.gt(n0, eps)
            iszero = T.eq(n0, 0)
            e.oblige("normalize:norm-equals-scale", T.bor(T.bnot(T.tob(nonzero)), T.tob(T.eq(n1, abs(K(scale))))), slice=list(ridx))
        allzero = True
        for x in vec:
            allzero = T.band(allzero, T.tob(T.eq(x, 0)))
        e.oblige("normalize:zero-stays-zero", T.bor(T.bnot(T.tob(iszero)), allzero), slice=list(ridx))


def checks(tier):
    th = tier == "thorough"
    life = []
    prefixes = [[], ["register"], ["register", "deregister"], ["register", "call"], ["register", "deregister", "register"], ["register", "eval"]]
    for tu in (True, False):
        for eu in (True, False):
            for pre in (False, True):
                for pf in prefixes:
                    if not th and (not tu and not eu):
                        if pf not in ([], ["register"]):
                            continue
                    if th:
                        free = 5 - len(pf) if len(pf) < 3 else 3
                    else:
                        free = 4 if not pf and tu and eu else (3 if len(pf) < 3 else 2)
                    life.append(dict(train_update=tu, eval_update=eu, as_prehook=pre, prefix=pf, free=free))
    for tu in (True, False):
        for eu in (True, False):
            for pre in (False, True):
                life.append(dict(train_update=tu, eval_update=eu, as_prehook=pre, prefix=["register"], free=(4 if th else 3), flags=True))
    cl = [dict(min=lo, max=hi, attr=a, as_prehook=pre) for (lo, hi) in ((-1.0, 1.0), (0.0, None), (None, 0.5), (0.25, 0.3), (-1.0, 0.0), (0.0, 1.0), (None, 0.0)) for a in ("w", "inner.weight", "mid.leaf.w") for pre in (False, True)]
    nm = []
    for p in (1, 2, float("inf")):
        for scale in (1.0, -2.5):
            for shape, dim in (((3,), None), ((2, 2), 0), ((2, 2), -1), ((2, 2), None), ((2, 2), (0, 1)), ((1, 3), (0, 1))):
                if p == 2 and shape == (2, 2) and dim in (None, (0, 1)):
                    continue          # 4-element Euclidean norms: z3 (NRA + sqrt) does not finish within the budget; 3 elements do
                nm.append(dict(order=p, scale=scale, dim=dim, shape=shape))
    o = {"max_paths": 200000, "div_policy": "assume", "query_timeout_ms": 120000}
    return [Check("lifecycle", h_lifecycle, life, opts=o, timeout_s=3000), Check("clamping", h_clamp, cl, opts=o, timeout_s=600), Check("clamping_fp32", h_clamp, cl, opts=dict(o, fp32=True), timeout_s=600), Check("normalization", h_normalize, nm, opts=o, timeout_s=1200)]


BOUNDS = {
    "quick": {"programs": "all programs of 4 operations (5-6 after the fixed prefixes register / register-deregister / register-deregister-register / register-call / register-eval) over "
                          "{register, deregister, train, eval, call, manual(force, ignore_mode), delete+collect} x 4 enable-flag combinations x pre/post; "
                          "after [register] also 3-operation programs that additionally flip the trainexec / evalexec flags",
              "clamping": "symbolic 2x2 buffer, nested Parameter and a buffer three attribute levels down, 7 bound settings (two-sided, one-sided, and limits that are exactly 0), pre/post; decided over the reals and again bit-exactly over IEEE float32 variables", "normalisation": "p in {1, 2, inf}, scale in {1, -2.5}, shapes (3,), (2,2), dims None/0/-1/(0,1)"},
    "thorough": {"programs": "5 free operations"},
}
OUTSIDE = ["p-norms with non-integer p", "vectors whose norm lies in (0, 1e-6) (F.normalize's epsilon floor)", "garbage-collection timing is executed under CPython, not modelled",
           "program quantifier = exhaustive enumeration up to the length bound (each path is one concrete program)"]
