#!/bin/bash
# usage: tools/try_seed.sh <seed-name> <property> [more properties...]
# Confirms a seeded change (seeded/<name>/patch.diff + demo.py) in a scratch worktree of /repo:
# demo fails with / passes without the change, the existing test suite passes with it,
# and runs the given properties' quick checks against the changed tree (VERIF_REPO).
set -u
name=$1; shift
S=/verif/seeded/$name
W=/tmp/seedcheck/$name
rm -rf "$W"; git -C /repo worktree prune
git -C /repo worktree add -q --detach "$W" HEAD || exit 2
cd "$W" || exit 2
/venv/bin/python "$S/demo.py" "$W" >"$S/demo_without.log" 2>&1; d0=$?
git apply "$S/patch.diff" || { echo "patch does not apply"; exit 2; }
/venv/bin/python "$S/demo.py" "$W" >"$S/demo_with.log" 2>&1; d1=$?
echo "demo: without=$d0 with=$d1"
if [ "${SKIP_TESTS:-0}" != 1 ]; then
  /venv/bin/python -m pytest -q -p no:cacheprovider --timeout=900 -x -q >"$S/tests_with.log" 2>&1; t=$?
  echo "tests with patch: exit=$t  $(tail -1 "$S/tests_with.log")"
fi
cd /verif
for p in "$@"; do
  VERIF_REPO=$W ./bin/check "$p" --tier "${TIER:-quick}" --no-evidence >"$S/check_$p.log" 2>&1; c=$?
  echo "check $p: exit=$c  $(grep -c '^VIOLATION' "$S/check_$p.log") violation lines; $(tail -1 "$S/check_$p.log")"
done
git -C /repo worktree remove --force "$W"
/venv/bin/python /verif/tools/seed_meta.py "$name" "$d0" "$d1" "$@"
