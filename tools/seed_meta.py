#!/usr/bin/env python3
"""Writes seeded/<name>/meta.json from the sub-agent's agent_meta.json and the confirmation logs of try_seed.sh."""
import json, os, re, sys
name, d0, d1, props = sys.argv[1], int(sys.argv[2]), int(sys.argv[3]), sys.argv[4:]
S = f"/verif/seeded/{name}"
agent = {}
if os.path.exists(f"{S}/agent_meta.json"):
    try:
        agent = json.load(open(f"{S}/agent_meta.json"))
    except Exception:
        agent = {}
old = json.load(open(f"{S}/meta.json")) if os.path.exists(f"{S}/meta.json") else {}
tests = old.get("confirmed", {}).get("existing_tests_with_patch")
if os.path.exists(f"{S}/tests_with.log"):
    t = open(f"{S}/tests_with.log").read()
    fails = re.findall(r"^(?:FAILED|ERROR) .*", t, re.M)
    tests = "pass (full suite, pytest -x exit 0)" if not fails and "error" not in t.lower().split("warnings")[0][-200:] else f"see tests_with.log: {fails[:3]}"
det = dict(old.get("detected_by", {}))
for p in props:
    log = open(f"{S}/check_{p}.log").read()
    last = [l for l in log.splitlines() if l.startswith(p + " [")]
    labels = sorted(set(re.findall(r"check=(\S+) label=(\S+)", log)))
    det[p] = {"cmd": f"VERIF_REPO=<tree with patch> ./bin/check {p} --tier {os.environ.get('TIER', 'quick')}", "summary": last[-1] if last else "?",
              "violating (check, label)": [list(x) for x in labels][:8], "caught": bool(re.search(r"-> exit 1", log))}
meta = {
    "property": agent.get("property", name.split("-")[0]),
    "source": "independent sub-agent given only the property text and a scratch worktree",
    "summary": agent.get("summary", old.get("summary")),
    "needs": agent.get("needs", old.get("needs")),
    "files": agent.get("files"),
    "confirmed": {"demo_without_patch_exit": d0, "demo_with_patch_exit": d1, "existing_tests_with_patch": tests or agent.get("notes") or "run by the sub-agent (see agent_meta.json)"},
    "detected_by": det,
    "ran": f"tools/try_seed.sh {name} {' '.join(props)}",
}
if os.path.exists(f"{S}/patch_original_pre_fix.diff"):
    meta["note"] = "patch.diff is the sub-agent's change rebased onto a later fix: commit of /repo that touched the same lines; the original is patch_original_pre_fix.diff"
json.dump(meta, open(f"{S}/meta.json", "w"), indent=1)
print("meta written:", {k: v["caught"] for k, v in det.items()})
