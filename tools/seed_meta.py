#!/usr/bin/env python3
"""Writes seeded/<name>/meta.json from the sub-agent's agent_meta.json and the confirmation logs of try_seed.sh."""
import json, os, re, sys
name, d0, d1, props = sys.argv[1], int(sys.argv[2]), int(sys.argv[3]), sys.argv[4:]
S = f"/verif/seeded/{name}"
agent = {}
if os.path.exists(f"{S}/agent_meta.json"):
    try:
        agent = json.load(open(f"{S}/agent_meta.json"))
    except Exception:
        agent = {}
old = json.load(open(f"{S}/meta.json")) if os.path.exists(f"{S}/meta.json") else {}
tests = old.get("confirmed", {}).get("existing_tests_with_patch")
if os.path.exists(f"{S}/tests_with.log"):
    t = open(f"{S}/tests_with.log").read()
    fails = sorted(set(re.findall(r"^FAILED (\S+)", t, re.M)))
    reruns = re.findall(r"^RERUN (\S+) passed (\d)/4 alone", t, re.M)
    summ = re.findall(r"^=*\s*(\d+ (?:failed, )?\d* ?passed[^=\n]*)", t, re.M) or re.findall(r"(\d+ passed[^\n]*)", t)
    if not fails:
        tests = "pass: " + (summ[-1].strip() if summ else "pytest exit 0, no failure")
    else:
        alone = {n: int(k) for n, k in reruns}
        flaky = all(alone.get(f, 0) >= 1 for f in fails) if reruns else None
        tests = {"summary": summ[-1].strip() if summ else None, "failed_in_full_run": fails, "each_failing_test_rerun_alone_passed_of_4": alone,
                 "verdict": "pass (only randomly failing tests, which also fail at random on the unchanged tree: they pass when re-run alone)" if flaky else
                            ("stopped at a randomly failing test under -x; see tests_with.log" if flaky is None else "FAILS")}
det = {k: v for k, v in dict(old.get("detected_by", {})).items() if isinstance(v, dict)}
for p in props:
    log = open(f"{S}/check_{p}.log").read()
    last = [l for l in log.splitlines() if l.startswith(p + " [")]
    labels = sorted(set(re.findall(r"check=(\S+) label=(\S+)", log)))
    det[p] = {"cmd": f"VERIF_REPO=<tree with patch> ./bin/check {p} --tier {os.environ.get('TIER', 'quick')}", "summary": last[-1] if last else "?",
              "violating (check, label)": [list(x) for x in labels][:8], "caught": bool(re.search(r"-> exit 1", log))}
meta = {
    "property": agent.get("property", name.split("-")[0]),
    "source": "independent sub-agent given only the property text and a scratch worktree",
    "summary": agent.get("summary", old.get("summary")),
    "needs": agent.get("needs", old.get("needs")),
    "files": agent.get("files"),
    "confirmed": {"demo_without_patch_exit": d0, "demo_with_patch_exit": d1, "existing_tests_with_patch": tests or agent.get("notes") or "run by the sub-agent (see agent_meta.json)"},
    "detected_by": det,
    "ran": f"tools/try_seed.sh {name} {' '.join(props)}",
}
if os.path.exists(f"{S}/patch_original_pre_fix.diff"):
    meta["note"] = "patch.diff is the sub-agent's change rebased onto a later fix: commit of /repo that touched the same lines; the original is patch_original_pre_fix.diff"
json.dump(meta, open(f"{S}/meta.json", "w"), indent=1)
print("meta written:", {k: v["caught"] for k, v in det.items()})
