#!/bin/bash
# Re-runs every kept seeded change against the current quick check of its property (scratch worktree per seed, removed afterwards)
# and writes seeded/REGRESSION.txt: one line per seed with the exit code of the check (1 = detected).
cd /verif
out=seeded/REGRESSION.txt
echo "# $(date -u +%FT%TZ) verif=$(git rev-parse --short HEAD) repo=$(git -C /repo rev-parse --short HEAD)" > $out
for d in seeded/C*-*/; do
  name=$(basename $d); p=${name%-*}
  r=$(SKIP_TESTS=1 tools/try_seed.sh $name $p 2>&1 | grep "^check" | head -1)
  echo "$name ${r:-NO-RESULT}" | cut -c1-260 >> $out
done
