#!/bin/bash
# usage: tools/import_seed.sh <property> <round-letter>   copies a sub-agent's deliverables from /tmp/wt/<P><r>/_out into seeded/<P>-<r>/, removes the
# scratch worktree and runs the property's quick check against the change (tools/try_seed.sh without the test suite; tools/seed_tests2.sh runs that).
p=$1; r=$2
mkdir -p /verif/seeded/$p-$r
cp /tmp/wt/${p}${r}/_out/patch.diff /verif/seeded/$p-$r/patch.diff
cp /tmp/wt/${p}${r}/_out/demo.py /verif/seeded/$p-$r/demo.py
cp /tmp/wt/${p}${r}/_out/meta.json /verif/seeded/$p-$r/agent_meta.json
git -C /repo worktree remove --force /tmp/wt/${p}${r}
cd /verif && SKIP_TESTS=1 tools/try_seed.sh $p-$r $p 2>&1 | grep -v "^meta"
