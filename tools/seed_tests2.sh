#!/bin/bash
# usage: tools/seed_tests2.sh <seed-name>...   full test suite (no -x) on a scratch worktree with the seeded patch; failing tests are re-run alone (the suite draws random inputs and is flaky)
for name in "$@"; do
  S=/verif/seeded/$name; W=/tmp/seedtests/$name
  rm -rf "$W"; git -C /repo worktree prune
  git -C /repo worktree add -q --detach "$W" HEAD || continue
  ( cd "$W" && git apply "$S/patch.diff" && /venv/bin/python -m pytest -q -p no:cacheprovider --timeout=900 >"$S/tests_with.log" 2>&1; echo "exit=$?" >>"$S/tests_with.log"
    for t in $(grep "^FAILED" "$S/tests_with.log" | awk '{print $2}'); do
      ok=0; for i in 1 2 3 4; do /venv/bin/python -m pytest -q -p no:cacheprovider "$t" >/dev/null 2>&1 && ok=$((ok+1)); done
      echo "RERUN $t passed $ok/4 alone" >>"$S/tests_with.log"
    done )
  git -C /repo worktree remove --force "$W"
  echo "$name: $(grep -E '^[0-9]+ (passed|failed)|passed' $S/tests_with.log | tail -1) | $(grep RERUN $S/tests_with.log | tr '\n' ';')"
done
