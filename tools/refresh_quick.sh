#!/bin/bash
# Re-runs every quick check on the current trees (evidence files are rewritten by the checks themselves) and prints one line per property.
cd /verif
for p in C01 C02 C03 C04 C05 C06 C07 C08 C09 C10 C11 C12 C13 C14 C15 C16 C17 C18 C19 C20; do
  rm -f evidence/$p.json
  ./bin/check $p --tier quick > /tmp/final_quick_$p.log 2>&1; rc=$?
  echo "$p exit=$rc $(tail -1 /tmp/final_quick_$p.log | cut -c1-200)"
done
