#!/usr/bin/env python3
"""Rewrites the measured column of the per-property table in DESIGN.md (section 6) from evidence/<id>.json
(quick tier: configurations / paths / obligations (distinct non-trivial) / wall)."""
import json
import os
import re

V = os.path.dirname(os.path.dirname(os.path.abspath(__file__)))
p = os.path.join(V, "DESIGN.md")
s = open(p).read()
for i in range(1, 21):
    pid = f"C{i:02d}"
    ev = os.path.join(V, "evidence", pid + ".json")
    if not os.path.exists(ev):
        continue
    d = json.load(open(ev))
    if d.get("tier") != "quick":
        continue
    c = d["coverage"]
    cell = f"{c['configurations']} / {c['paths']} / {c['obligations']} ({c['distinct_nontrivial']}) / {round(d['wall_s'])} s"
    s, n = re.subn(rf"(\| {pid} \|[^\n]*\| )[0-9]+ / [0-9]+ / [0-9]+ \([0-9]+\) / [0-9]+ s( \|\n)", lambda m: m.group(1) + cell + m.group(2), s, count=1)
    print(pid, cell, "updated" if n else "ROW NOT FOUND")
open(p, "w").write(s)
