#!/usr/bin/env python3
"""Regenerates /verif/MANIFEST.json from the table below (kept valid at all times)."""
import json
import os

VERIF = os.path.dirname(os.path.dirname(os.path.abspath(__file__)))
ids = [json.loads(l)["id"] for l in open(os.path.join(VERIF, "properties.jsonl"))]

TECH = "bounded symbolic execution of the real source (TorchDispatchMode shadow), z3 decides every path obligation; counterexamples replayed"
NOTE = ("Trusted: z3; the hand-written element-wise semantics of the ATen operators listed in the evidence (lockstep-validated against the real kernels); "
        "PyTorch's own shape/dtype/alias behaviour (executed, not modelled). Reals instead of floats; sizes on the stated grid; see DESIGN.md section 4.")

CLAIMED = {
    "C01": dict(
        text="Inductive step over an arbitrary symbolic ring (N<=3 quick, N<=5 thorough; every pointer; scalar offsets 0..2N and symbolic per-element "
             "tensor offsets; lengths 1..N; in-place and out-of-place; float32/int64/bool; buffer and Parameter): one public operation from any state is "
             "compared with a list model written from the docstrings and the representation relation is re-established, so operation sequences of any "
             "length are covered for the enumerated sizes; plus exhaustive short programs and the auto-created-storage path.",
        ref="6/C01"),
    "C02": dict(
        text="select/insert with a SYMBOLIC time (per-element float64 tensor of rank r and r+1, and a symbolic Python scalar driven through the real "
             "scalar branch) over symbolic ring contents: for dt in {1.0,0.5,1.3,0.1}, N<=3 (4 thorough), every pointer, offsets 0..2, tolerances "
             "{0,1e-6,(1e-3),dt/4}, all 6 interpolations and 8 extrapolations, in-place and out-of-place. Oracle piecewise over the grid index k, "
             "independent of round/ceil/floor/%; rejection iff out of range; frame condition on untouched slots; insert-then-select round trip for "
             "matching pairs; scalar call == tensor call.",
        ref="6/C02"),
    "C03": dict(
        text="One simulation step of each of the eight neuron classes from an ARBITRARY symbolic state (voltage, refractory time within the inductive "
             "invariant 0<=refrac<=refrac_t, adaptation state) and arbitrary input, against the documented update equations: spikes, voltage, reset, "
             "refractory time, adaptation (incl. freezing while refractory and batch mean), spike attribute; (dt, refrac_t) incl. 0 and non-multiples; "
             "batch 1-2; refrac_lock on/off; adaptation on/off/None+train/None+eval. Spiking neurons are followed through the refractory window with "
             "arbitrary inputs. Functional kernels additionally with symbolic hyper-parameters. The window obligations (reset to exactly the reset voltage, no spike and an unchanged locked voltage inside the window, refrac >= 0) are additionally decided bit-exactly over IEEE float32 variables (z3 floating-point theory) for the six classes without exp().",
        ref="6/C03"),
    "C04": dict(
        text="All four synapse classes: (a) T<=4 (6 thorough) steps from a cleared (also dirty-then-cleared) synapse with symbolic input spikes and injected "
             "currents against the documented kernel sums; spike record == input; grid reads of the past. (b) one step from an ARBITRARY planted "
             "history at every pointer position, then current_at/spike_at with a SYMBOLIC per-element selector in [-1, delay+2dt]: history value on the grid, "
             "the synapse's interpolation between grid points, overbound value / limit value (None) beyond the delay. dt in {1.0,(0.5),1.3}, delay in "
             "{0,(dt),2dt,2.5dt}, interp modes, tolerances {0,1e-3}, three overbound settings, in-place and out-of-place. Also with step time, spike charge and delay assigned through the setters after construction.",
        ref="6/C04"),
    "C05": dict(
        text="Forward map of LinearDense/LinearDirect/LinearLateral and Conv2D with symbolic inputs (spike indicators + real currents), weights and biases "
             "against the index-level definition (padded cross-correlation with stride/dilation; output-size formula), two steps with the parameters "
             "re-assigned in between; conv geometries: all non-empty combinations of H=W in 3..5 (1..5 and rectangular thorough), kernel 1..3, stride 1-2, "
             "padding 0-1, dilation 1-2, C,F in {1,2}. Lateral: zero diagonal of weight and delay after tensor/Parameter/expression assignment and "
             "after updater application. Helpers: like_input(like_synaptic(x)) == x on read positions; pre/post receptive views place elements as documented. Lateral mask also under transposed / sub-block / expanded (non-contiguous) assignments.",
        ref="6/C05"),
    "C06": dict(
        text="Relational: a delayed connection D and an identically parameterised undelayed U receive the same symbolic input history (T=3, 5 thorough); "
             "the per-synapse DELAY TENSOR IS SYMBOLIC (any real in [0,max], or constrained to the grid, or all zero), weights and biases symbolic. At every "
             "step D.forward == sum_i w_oi * (U's synaptic current of input i read d_oi ago: history value on the grid, the synapse's documented "
             "interpolation between grid points, resting state before the start); D.syncurrent/synspike show the same shifted values; zero delay == "
             "no delay. 4 connection types (dense, direct, lateral, conv) x 5 synapse configurations x dt in {1.0, 1.3} x max delay 2dt (1-3 dt thorough). Also: two more steps after clear(), delays re-assigned while running, concrete Python-float delays k*dt at unrepresentable step times (float32 index arithmetic on the real kernels), one- and two-channel convolutions.",
        ref="6/C06"),
    "C07": dict(
        text="(i) inferno.trace_* one-step functions from an arbitrary symbolic trace (bool and real observations, tolerance on/off, first step). (ii) all "
             "12 FoldReducer configurations (6 trace reducers, Event with inf/nan/zero initial, Passthrough, EMA, CA): T=4 (6 thorough) symbolic observations "
             "from clear, optionally with clear(keepshape T/F) interleaved; peek/latest == closed form at every step (indicator arithmetic: polynomial "
             "identities); dump() newest-first; view(time) with a SYMBOLIC per-element time == recorded value interpolated by the reducer's documented rule "
             "(analytic decay / elapsed time / previous / linear), plus scalar grid times; dt in {1.0, 1.3}, duration {0,(dt),2dt}, in-place and not.",
        ref="6/C07"),
    "C08": dict(
        text="Real Serial layer + real trainer (monitors, reducers, hooks) + real Updater, scripted post population, T=4 (6 thorough; 3 for per-sample "
             "signals) steps on SYMBOLIC pre/post spike histories (indicator arithmetic) and symbolic per-sample reward magnitudes (forked on sign): the "
             "accumulated potentiation and depression parts and the weight after update() equal the documented closed-form pair sums - STDP, TripletSTDP, "
             "MSTDP, MSTDPET x cumulative/nearest x 4 sign modes x dense/direct/lateral cells x no delay / per-synapse grid delays with delayed=True / "
             "delayed=False x batch 2 with sum/mean reduction. Cells: dense 2x2 and (2,2)->(3,), direct, lateral, Conv2D with one and two input channels (weights shared over receptive fields, per-synapse delays).",
        ref="6/C08"),
    "C09": dict(
        text="Every trainer step on symbolic histories (T=3): each part handed to the updater is element-wise >= 0 and potentiation - depression equals "
             "the rule's signed update, for STDP/TripletSTDP/MSTDP/MSTDPET with every combination of constructor sign mode and per-cell override sign mode "
             "(with and without multiplicative upper/lower bounds: weight after update compared), for the 7 kernel / delay-adjusted weight and delay "
             "variants x 4 sign modes with symbolic delays and per-sample signals, and for LinearHomeostasis on weight/bias/delay (signed rule "
             "lambda (r*-r)/r*, direction toward the target). Direction lemmas: Hebbian causal pair strengthens, anti-causal weakens, negative reward flips. All cell kinds; kernel hyper-parameters as floats and as tensors.",
        ref="6/C09"),
    "C10": dict(
        text="One updater application from an arbitrary symbolic parameter with 0-3 symbolic potentiating and depressing parts: param' = param + "
             "B_up(reduce(pos)) - B_lo(reduce(neg)) for reductions {default, sum, mean, amax, custom passed at construction} x bounding {none, upper, lower, "
             "both halves, full} x {power 1-3, scaled power, multiplicative, scaled multiplicative, sharp}; other parameters untouched; second application "
             "after the default clear is a no-op. Range invariant (param in [min,max], magnitudes within the documented cap => param' in [min,max]) as a "
             "one-step inductive obligation; sharp never moves further beyond a reached limit. All 4-operation (5 thorough) programs over {pos, neg, both, "
             "read, update, update(clear=False), updatesome, clear} against a reference model of the accumulators. Also updatesome() with one or two parameter names and CellTrainer.update() over cells that share a connection.",
        ref="6/C10"),
    "C11": dict(
        text="2-safety by self-composition: a batch-B component and B batch-1 copies share symbolic parameters and are planted with the SAME arbitrary "
             "symbolic per-sample state, then one step with arbitrary per-sample inputs (inductive step): outputs, state tensors, complete recorded "
             "histories and delayed reads with a symbolic selector of the batched component sliced at b equal the single-sample copy's - 8 neuron classes "
             "(adaptation frozen), 4 synapses (delay 0/2dt, in-place and not), 4 connection types with and without symbolic grid delays (T=2-3); Serial / "
             "Biclique / RecurrentSerial layers unrolled T=2-3; trainers with a sum batch reduction: batched parts == sum of per-sample parts. Also: adaptive neurons frozen by adapt=False in training mode (two steps), partially fed bicliques, delayed STDP-family trainers, KernelSTDP with a sign-changing kernel.",
        ref="6/C11"),
    "C12": dict(
        text="Relational, bounded: model A runs k symbolic steps (k = 0..4 around the ring size 3), its layer/trainer/monitor state dictionaries are "
             "snapshotted (tensor clone + deep copy of extra state = stub for torch.save/load), model B of the same configuration has already run j in {1,2} "
             "steps on OTHER symbolic data, loads the snapshot, and both run 2 more steps on the same symbolic inputs: every state-dict entry (ring contents "
             "and write pointers, reducer flags/counters, adaptations, weights) and every output agree right after the load and after each step. Serial / "
             "RecurrentSerial x 4 synapses x LIF/ALIF/AdEx x heterogeneous per-synapse delays x trainers none/STDP(delayed)/MSTDPET/DelayAdjustedSTDP x "
             "in-place/not; MaxRateClassifier with symbolic rates: derived buffers recomputed on load. The model carries an input monitor with a 3-slot reducer (in-place or not) and a single-slot state monitor on the voltage; the classifier is checked from fresh / assigned / trained sources with learning after the restore; reachability witnesses guard against vacuous passes.",
        ref="6/C12"),
    "C13": dict(
        text="Temporal setters (dt, duration, inclusive) on records whose contents are symbolic markers: size formula (native float arithmetic, incl. "
             "non-representable ratios), the newest min(old,new) observations stay at the same steps-before-present positions, older new slots are zero, "
             "the next push overwrites only the oldest slot; all single-setter changes with size <= 4 (6 thorough) from pointers {0,1,N-1} (all), buffer and "
             "Parameter storage, and 3-setter sequences incl. None/empty/Uninitialized storage. Shape-constraint edits on records (tail preserved, head "
             "zero). ShapedTensor bookkeeping: all 2-call (3 thorough) reconstrain programs over dims in [-rank,rank], sizes {None,1,2,3}, strict and not: "
             "valid => every constraint holds; incompatible addition refused without side effects; removal never alters data. Also bool / int64 / float64 records (dtype kept) and constraints registered before storage exists.",
        ref="6/C13"),
    "C14": dict(
        text="Relational: X constructed at c1 and brought to c2 by setter calls (single attributes and 2-setter sequences, both directions) versus Y "
             "constructed at c2 - synapses (4 classes; dt, delay, batchsz, inplace), neurons (8 classes; dt, batchsz), connections (dense/direct/lateral; "
             "dt, batchsz, replacement synapse, synapse delay), reducers (dt, duration, inplace; all orders), .to(float64). Concrete obligations: getters "
             "report c2, every internal record has Y's size/step time/duration; symbolic obligations: from a cleared state X and Y give equal outputs, "
             "states, delayed reads (symbolic selector), views and dumps for T = 2-3 symbolic input steps. Also bare records: dt / duration / inclusive setters in both orders.",
        ref="6/C14"),
    "C15": dict(
        text="Exhaustive enumeration (solver-driven choice points) of lifecycle programs up to the length bound over {layer step, trainer train/eval, layer "
             "train/eval, trainer clear, del/register cell, trainer step} on a Serial layer and on a Biclique whose two cells share the post-synaptic group "
             "(pooled monitors), and two-trainer programs over {step, second trainer register/del/eval/train/clear, drop}. Every layer step feeds fresh "
             "SYMBOLIC spikes, so 'each monitor of each registered cell recorded exactly the armed steps, once' is an equality with the closed-form trace over "
             "exactly those steps, decided by the solver for all spike values; cell and monitor listings are compared with a reference model. Also user monitors added / deleted / replaced (unique=True), repeated arm/disarm cycles, and one trainer over two separate layers.",
        ref="6/C15"),
    "C16": dict(
        text="(a) exhaustive enumeration (solver-driven choice points) of all lifecycle programs up to the length bound over {register, deregister, train, "
             "eval, call module, manual call(force, ignore_mode), delete hook + gc} for every enable-flag combination and pre/post placement, incl. the "
             "prefixes register-deregister-register: the probe hook runs exactly when registered and its mode is enabled (pre sees the module before, post "
             "after the call), no dangling handle remains. (b) solver verdict over SYMBOLIC attribute tensors: after Clamping every element is within "
             "[min,max] and inside values are unchanged (buffer and nested connection weight); after Normalization the p-norm along the chosen dims "
             "equals |scale| for p in {1,2,inf} (p=2 decomposed into element-wise quotient + an algebraic lemma), zero vectors stay zero. Enable flags are also flipped after registration; clamping is decided over the reals and bit-exactly in float32, including limits equal to 0.",
        ref="6/C16"),
    "C17": dict(
        text="Relational: Serial / Biclique (sum, mean, prod, min, max, custom; with and without connection/neuron transforms) / RecurrentSerial (T=3, "
             "feedback synapse with and without memory and bias) outputs, intermediate currents and every component state versus a hand composition of "
             "separately built, identically parameterised components, for symbolic input spikes and symbolic weights; output shapes == batched shape. "
             "clear(): k arbitrary steps, clear, T replay steps == fresh layer (3 layer types x delta/single/double exponential synapses x LIF/ALIF, plus "
             "a delayed connection); parameters and adaptations unchanged by clear. One- and two-connection bicliques; reachability witnesses (a spike, a feedback spike, activity before clear).",
        ref="6/C17"),
    "C18": dict(
        text="Real Serial layer with a delayed connection + real DelayAdjustedSTDP/STDPD, DelayAdjustedKernelSTDP/STDPD, DelayAdjustedMSTDP/MSTDPD and "
             "KernelSTDP trainers on SYMBOLIC spike histories (T=3, 4 thorough) with NaN-aware event times and SYMBOLIC real per-synapse delays in "
             "[0,3dt] (re-assigned every step for the delay-learning variants): every step's potentiation and depression parts equal the documented "
             "function of t_delta (causal branch iff t_delta >= 0, no change and no NaN while either side has not spiked), 4 sign modes, dense and direct "
             "cells, scalar and per-sample signals. Relational: kernel STDP with the shipped exponential kernels == delay-adjusted STDP (weights and "
             "delays); with all delays zero delay-adjusted == unadjusted KernelSTDP. Also Conv2D cells, per-cell sign overrides, tensor-valued kernel hyper-parameters, and one trainer over several cells against single-cell trainers (10 trainer classes).",
        ref="6/C18"),
    "C19": dict(
        text="The three encoder classes (offline and online) and the functional encoders run on SYMBOLIC intensities in [0,1] (zero pattern forked) with every "
             "random draw (exponential, Poisson, Bernoulli) a fresh symbolic variable constrained only by its documented support, so the verdict covers every "
             "generator seed; IEEE specials modelled for zero intensities: boolean output with exactly `steps` time-first slices (or yielded slices), no spike "
             "for a zero intensity, consecutive spikes of an element >= ceil(refrac/dt) steps apart (refrac None/dt/2dt/3dt, compensate on/off), scatter "
             "indices in range, no exception. steps <= 4 (5), 1-2 elements, dt in {1.0,0.5}, frequency in {10,500,(1000)}. NOT covered: reproducibility under "
             "the same Generator state, rate statistics. Reproducibility is decided as a dataflow fact: every random op on every path receives the encoder's own generator. Step times include values where refrac/dt is inexact in floating point.",
        ref="6/C19"),
    "C20": dict(
        text="(i) interp(extrap(x)) == x for the 10 matching pairs and every extrapolation kernel == its documented closed form, linear interpolation "
             "between the brackets and equal to them at the ends - symbolic sample, brackets, sample time. (ii) Poisson/Normal/LogNormal with symbolic "
             "parameters, special functions as uninterpreted functions: density == documented formula, exp(log-density) == density, log-CDF == log(CDF) "
             "(terminates), CDF formula, Normal mean/variance round trip. (iii) Victor-Purpura on sorted symbolic spike-time vectors (sizes <= (3,1)/(2,2), "
             "(3,3) thorough) with symbolic finite and finite-or-infinite cost: identity, symmetry, triangle, |n0-n1| <= d <= n0+n1, documented limits at "
             "cost 0 and inf, tensor cost == float cost. (iv) ISI: every raster up to 8 bits (path enumeration). NOT covered: integral / moment identities, "
             "LogNormal parameter round trip. Also adjust callables in the linear extrapolations, large concrete Poisson supports (float32 range of the factorial) and the degenerate rate 0.",
        ref="6/C20"),
}

REASONS = {}


def main():
    checks, na = [], []
    for i in ids:
        if i in CLAIMED:
            c = CLAIMED[i]
            checks.append({
                "property_id": i,
                "quick_cmd": f"./bin/check {i} --tier quick",
                "thorough_cmd": f"./bin/check {i} --tier thorough",
                "evidence_file": f"/verif/evidence/{i}.json",
                "replay_cmd_template": f"./bin/check {i} --replay {{path}}",
                "engine": "symtorch",
                "level_claimed": {"category": "model_checking", "text": c["text"], "design_ref": c["ref"]},
                "level_note": c.get("note", NOTE),
                "technique": c.get("technique", TECH),
            })
        else:
            na.append({"property_id": i, "reason": REASONS.get(i, "check not built yet (framework under construction; see DESIGN.md section 6 for the planned harness)")})
    m = {
        "version": 1,
        "setup_cmd": "./bin/setup",
        "hooks": {"guard": "INFERNO_VERIF", "enable": "no source hooks are required; checks import /repo directly (PYTHONPATH=/repo) and observe public attributes",
                  "baseline_off_cmd": "cd /repo && /venv/bin/python -m pytest -ra -q -p no:cacheprovider --timeout=900 --continue-on-collection-errors",
                  "source_commits": [], "add_only": True},
        "engines": [{"name": "symtorch", "path": "symtorch/", "serves_properties": sorted(CLAIMED),
                     "kind_free_text": "symbolic shadow execution of the real inferno source on the real PyTorch runtime (TorchDispatchMode); z3 decides per-path obligations; "
                                       "counterexamples are replayed on the plain library"}],
        "checks": checks,
        "not_applicable": na,
        "notes": "exit 0 = every obligation of every explored path unsat; exit 1 = replayed violation not listed in known_findings.json; exit 2 = inconclusive (unsupported operator, solver unknown, budget, non-reproducing candidate)",
    }
    with open(os.path.join(VERIF, "MANIFEST.json"), "w") as f:
        json.dump(m, f, indent=1)


if __name__ == "__main__":
    main()
