#!/bin/bash
# usage: tools/seed_tests.sh <seed-name>...   runs the repository's test suite on a scratch worktree with the seeded patch applied
for name in "$@"; do
  S=/verif/seeded/$name; W=/tmp/seedtests/$name
  rm -rf "$W"; git -C /repo worktree prune
  git -C /repo worktree add -q --detach "$W" HEAD || continue
  ( cd "$W" && git apply "$S/patch.diff" && /venv/bin/python -m pytest -q -p no:cacheprovider --timeout=900 -x -q >"$S/tests_with.log" 2>&1; echo "exit=$?" >>"$S/tests_with.log"
    if grep -q "exit=[^0]" "$S/tests_with.log"; then   # flaky suite: re-run the failing test alone three times
      t=$(grep -m1 "^FAILED" "$S/tests_with.log" | awk '{print $2}')
      for i in 1 2 3; do /venv/bin/python -m pytest -q -p no:cacheprovider "$t" 2>&1 | tail -1 >>"$S/tests_with.log"; done
    fi )
  git -C /repo worktree remove --force "$W"
  echo "$name: $(grep exit= $S/tests_with.log) $(grep -m1 '^FAILED' $S/tests_with.log)"
done
