"""CrossHair contracts (PEP 316 docstrings) over the REAL pure-Python helpers of inferno/core/infrastructure.py.

These give facts for EVERY record size / integer argument (no size bound), complementing the bounded symtorch checks.
Run: crosshair check --report_all --per_condition_timeout 60 contracts/ring_contracts.py
"""
from inferno.core.infrastructure import _unwind_ptr, _constraint_dimensionality, _constraints_consistent


def unwind_in_range(pointer: int, offset: int, size: int) -> int:
    """
    pre: size >= 1
    pre: 0 <= pointer < size
    pre: -1000000 <= offset <= 1000000
    post: 0 <= __return__ < size
    post: (__return__ - (pointer - offset)) % size == 0
    """
    return _unwind_ptr(pointer, offset, size)


def incr_then_decr_is_identity(pointer: int, k: int, size: int) -> int:
    """
    pre: size >= 1
    pre: 0 <= pointer < size
    pre: 0 <= k <= 1000000
    post: __return__ == pointer
    """
    return _unwind_ptr(_unwind_ptr(pointer, -k, size), k, size)


def unwind_reachability_twin(pointer: int, offset: int, size: int) -> int:
    """
    pre: size >= 1
    pre: 0 <= pointer < size
    pre: -1000000 <= offset <= 1000000
    post: False
    """
    return _unwind_ptr(pointer, offset, size)


def dimensionality_covers_strict(d0: int, d1: int, strict: bool) -> int:
    """
    pre: -4 <= d0 <= 4 and -4 <= d1 <= 4
    post: __return__ >= 0
    post: implies(d0 >= 0, __return__ >= d0 + 1)
    post: implies(d0 < 0, __return__ >= -d0)
    post: implies(d1 >= 0, __return__ >= d1 + 1)
    post: implies(d1 < 0, __return__ >= -d1)
    """
    return _constraint_dimensionality({d0: 1, d1: 2}, strict)
