"""Runs CrossHair on a contract module and turns its verdicts into obligations of a harness."""
import os
import re
import subprocess
import sys


def run_contracts(path, timeout_s=90):
    """Returns {function_name: verdict} with verdict in {'confirmed', 'refuted', 'inconclusive'}."""
    env = dict(os.environ)
    cmd = [sys.executable, "-m", "crosshair", "check", "--report_all", "--per_condition_timeout", str(timeout_s), path]
    try:
        out = subprocess.run(cmd, capture_output=True, text=True, env=env, timeout=timeout_s * 12).stdout
    except subprocess.TimeoutExpired:
        return {}, "timeout"
    lines = open(path).read().split("\n")
    res = {}
    for l in out.splitlines():
        m = re.match(r".*?:(\d+): (\w+): (.*)", l)
        if not m:
            continue
        ln, kind, msg = int(m.group(1)), m.group(2), m.group(3)
        # find the enclosing def
        fn = None
        for i in range(ln - 1, -1, -1):
            mm = re.match(r"def (\w+)\(", lines[i])
            if mm:
                fn = mm.group(1)
                break
        if fn is None:
            continue
        if "Confirmed over all paths" in msg:
            v = "confirmed"
        elif kind == "error":
            v = "refuted"
        else:
            v = "inconclusive"
        # a function is confirmed only if every condition is; any refutation wins
        prev = res.get(fn)
        if prev == "refuted" or v == "refuted":
            res[fn] = "refuted"
        elif prev == "inconclusive" or v == "inconclusive":
            res[fn] = "inconclusive"
        else:
            res[fn] = "confirmed"
    return res, out
