"""Symbolic Python scalars (SymNum): exact-rational terms flowing through pure-Python library code.

`float`/`int` are shadowed in the namespace of the module under test for the duration of a
call (float(SymNum) is the identity, int(SymNum) truncates symbolically); torch.full is
wrapped so a SymNum fill value becomes a symbolic tensor; tensor indexing forks over the
feasible integer values of a SymNum index.
"""
from __future__ import annotations
import builtins
import math
from fractions import Fraction

import numpy as np
import torch
import z3

from . import terms as T
from .terms import Unsupported


class SymBool:
    def __init__(self, eng, term):
        self.e, self.t = eng, term

    def __bool__(self):
        return self.e.branch(self.t)

    def __and__(self, o):
        return SymBool(self.e, T.band(self.t, o.t if isinstance(o, SymBool) else bool(o)))

    def __or__(self, o):
        return SymBool(self.e, T.bor(self.t, o.t if isinstance(o, SymBool) else bool(o)))

    def __invert__(self):
        return SymBool(self.e, T.bnot(self.t))


class SymNum:
    def __init__(self, eng, term):
        self.e, self.t = eng, term

    def _w(self, x):
        if not T.is_sym(x):
            return int(x) if isinstance(x, int) and not isinstance(x, bool) else (float(x) if False else x)
        return SymNum(self.e, x)

    @staticmethod
    def _v(o):
        return o.t if isinstance(o, SymNum) else T.num(o)

    def __add__(self, o):
        return SymNum(self.e, T.add(self.t, self._v(o)))
    __radd__ = __add__

    def __sub__(self, o):
        return SymNum(self.e, T.sub(self.t, self._v(o)))

    def __rsub__(self, o):
        return SymNum(self.e, T.sub(self._v(o), self.t))

    def __mul__(self, o):
        return SymNum(self.e, T.mul(self.t, self._v(o)))
    __rmul__ = __mul__

    def __truediv__(self, o):
        return SymNum(self.e, T.div(self.t, self._v(o)))

    def __rtruediv__(self, o):
        return SymNum(self.e, T.div(self._v(o), self.t))

    def __floordiv__(self, o):
        return SymNum(self.e, T.floordiv(self.t, self._v(o)))

    def __mod__(self, o):
        return SymNum(self.e, T.remainder(self.t, self._v(o)))

    def __neg__(self):
        return SymNum(self.e, T.neg(self.t))

    def __pos__(self):
        return self

    def __abs__(self):
        return SymNum(self.e, T.abs_(self.t))

    def _is_int(self):
        return T.is_z(self.t) and z3.is_int(self.t)

    def __round__(self, n=None):
        if n is not None:
            raise Unsupported("round(SymNum, ndigits)")
        return SymNum(self.e, T.to_int(T.round_(self.t)))

    def __ceil__(self):
        return SymNum(self.e, T.to_int(T.ceil_(self.t)))

    def __floor__(self):
        return SymNum(self.e, T.to_int(T.floor_(self.t)))

    def __trunc__(self):
        return SymNum(self.e, T.to_int(self.t))

    def __lt__(self, o):
        return SymBool(self.e, T.tob(T.lt(self.t, self._v(o))))

    def __le__(self, o):
        return SymBool(self.e, T.tob(T.le(self.t, self._v(o))))

    def __gt__(self, o):
        return SymBool(self.e, T.tob(T.gt(self.t, self._v(o))))

    def __ge__(self, o):
        return SymBool(self.e, T.tob(T.ge(self.t, self._v(o))))

    def __eq__(self, o):
        return SymBool(self.e, T.tob(T.eq(self.t, self._v(o))))

    def __ne__(self, o):
        return SymBool(self.e, T.tob(T.ne(self.t, self._v(o))))

    __hash__ = None

    def __index__(self):
        return self.e.concretize_int(T.to_int(self.t) if not self._is_int() else self.t)

    def __int__(self):
        return self.__index__()

    def __format__(self, spec):
        return "<symbolic>"

    def __repr__(self):
        return "<symbolic>"


def sym_float(x=0.0):
    return x if isinstance(x, SymNum) else builtins.float(x)


def sym_int(x=0, *a):
    if isinstance(x, SymNum):
        return SymNum(x.e, T.to_int(x.t))
    return builtins.int(x, *a)


class inject:
    """Shadow float/int (and math.ceil/floor users keep working through dunders) in modules."""

    def __init__(self, *modules):
        self.mods = modules

    def __enter__(self):
        for m in self.mods:
            m.__dict__["float"] = sym_float
            m.__dict__["int"] = sym_int
        return self

    def __exit__(self, *a):
        for m in self.mods:
            m.__dict__.pop("float", None)
            m.__dict__.pop("int", None)


class patch_torch:
    """torch.full / torch.tensor accept SymNum fill values; tensor indexing forks on SymNum."""

    def __init__(self, eng):
        self.eng = eng

    def __enter__(self):
        self.orig_full = torch.full
        eng = self.eng
        orig = self.orig_full

        def full(size, fill_value, **kw):
            if isinstance(fill_value, SymNum):
                dt = kw.get("dtype") or torch.get_default_dtype()
                return eng.lift(np.broadcast_to(np.array(fill_value.t, dtype=object), tuple(size)).copy(), dt)
            return orig(size, fill_value, **kw)
        torch.full = full
        return self

    def __exit__(self, *a):
        torch.full = self.orig_full


def conc_index(x):
    if isinstance(x, SymNum):
        return x.__index__()
    if isinstance(x, tuple):
        return tuple(conc_index(i) for i in x)
    if isinstance(x, list):
        return [conc_index(i) for i in x]
    if isinstance(x, slice):
        return slice(conc_index(x.start), conc_index(x.stop), conc_index(x.step))
    return x
