"""IEEE float32 elements (bit-exact mode).

In the default mode float elements are mathematical reals, so two expressions that are equal
over the reals (``v.where(~s, r)`` and ``v - s * (v - r)``) are indistinguishable.  With the
engine option ``fp32`` every float32 input is a z3 floating-point variable (sort Float32,
round-to-nearest-even) and +, -, *, /, comparisons, min/max, abs, where are the IEEE
operations, so claims that a statement makes *exactly* (reset to exactly the reset voltage,
a clamped value inside the limits, a locked voltage unchanged) are decided bit-exactly.
Transcendental functions of symbolic floats are not modelled here (Unsupported: the run is
inconclusive, never a pass); on constants they are evaluated in float32 by numpy.
"""
from __future__ import annotations
import math
from fractions import Fraction

import numpy as np
import z3

S32 = z3.Float32()
RM = z3.RNE()


class FP:
    __slots__ = ("t",)

    def __init__(self, t):
        self.t = t

    def __repr__(self):
        return f"FP({self.t})"


def _unsupported(msg):
    from .terms import Unsupported
    return Unsupported(msg)


def val(x):
    """FP constant from a Python number (rounded to float32 like a scalar meeting a float32 tensor)."""
    f = float(x)
    if math.isnan(f):
        return FP(z3.fpNaN(S32))
    if math.isinf(f):
        return FP(z3.fpPlusInfinity(S32) if f > 0 else z3.fpMinusInfinity(S32))
    return FP(z3.FPVal(float(np.float32(f)), S32))


def is_const(a):
    return isinstance(a, FP) and isinstance(a.t, z3.FPNumRef)


def to_float(a):
    """Python float of an FP constant."""
    t = a.t
    if t.isNaN():
        return float("nan")
    if t.isInf():
        return float("-inf") if t.isNegative() else float("inf")
    r = z3.simplify(z3.fpToReal(t))
    fr = r.as_fraction()
    v = float(Fraction(fr.numerator, fr.denominator))
    if v == 0.0 and t.isNegative():
        return -0.0
    return v


def term(x):
    """z3 Float32 term of any element that can meet a float32 value."""
    from . import terms as T
    if isinstance(x, FP):
        return x.t
    if isinstance(x, bool):
        return z3.FPVal(1.0 if x else 0.0, S32)
    if isinstance(x, (int, Fraction)):
        return val(x).t
    if isinstance(x, float):
        return val(x).t
    if isinstance(x, T.Ind):
        return z3.If(T.rv(x.p) == 1, z3.FPVal(1.0, S32), z3.FPVal(0.0, S32))
    if isinstance(x, T.XR):
        if not (T.is_z(x.nan) or T.is_z(x.pinf) or T.is_z(x.ninf)):
            if x.nan:
                return z3.fpNaN(S32)
            if x.pinf:
                return z3.fpPlusInfinity(S32)
            if x.ninf:
                return z3.fpMinusInfinity(S32)
            return term(x.val)
        raise _unsupported("symbolic real-mode special value meeting a float32 element")
    if T.is_z(x):
        if z3.is_bool(x):
            return z3.If(x, z3.FPVal(1.0, S32), z3.FPVal(0.0, S32))
        n = T._numeral(x)
        if n is not None:
            return val(n).t
        if z3.is_app_of(x, z3.Z3_OP_ITE):
            c, p, q = x.children()
            return z3.If(c, term(p), term(q))
        if z3.is_int(x):
            # small symbolic integers (counts) are converted exactly
            return z3.fpToFP(RM, z3.ToReal(x), S32)
        raise _unsupported("a real-mode symbolic value meeting a float32 element")
    raise _unsupported(f"fp.term({type(x).__name__})")


def _mk(t):
    s = z3.simplify(t)
    return FP(s if isinstance(s, z3.FPNumRef) else t)


def _b(t):
    s = z3.simplify(t)
    if z3.is_true(s):
        return True
    if z3.is_false(s):
        return False
    return t


def add(a, b):
    return _mk(z3.fpAdd(RM, term(a), term(b)))


def sub(a, b):
    return _mk(z3.fpSub(RM, term(a), term(b)))


def mul(a, b):
    return _mk(z3.fpMul(RM, term(a), term(b)))


def div(a, b):
    return _mk(z3.fpDiv(RM, term(a), term(b)))


def neg(a):
    return _mk(z3.fpNeg(term(a)))


def abs_(a):
    return _mk(z3.fpAbs(term(a)))


def lt(a, b):
    return _b(z3.fpLT(term(a), term(b)))


def le(a, b):
    return _b(z3.fpLEQ(term(a), term(b)))


def eq(a, b):
    return _b(z3.fpEQ(term(a), term(b)))


def isnan(a):
    return _b(z3.fpIsNaN(term(a)))


def isinf(a):
    return _b(z3.fpIsInf(term(a)))


def tob(a):
    """x != 0 (NaN is truthy)."""
    return _b(z3.Not(z3.fpIsZero(term(a))))


def ite(c, a, b):
    if not isinstance(c, z3.ExprRef):
        return a if c else b
    return _mk(z3.If(c, term(a), term(b)))


def minimum(a, b):
    """torch.minimum: NaN if either is NaN."""
    x, y = term(a), term(b)
    return _mk(z3.If(z3.fpIsNaN(x), x, z3.If(z3.fpIsNaN(y), y, z3.If(z3.fpLT(y, x), y, x))))


def maximum(a, b):
    x, y = term(a), term(b)
    return _mk(z3.If(z3.fpIsNaN(x), x, z3.If(z3.fpIsNaN(y), y, z3.If(z3.fpGT(y, x), y, x))))


def same(a, b):
    """state equality: IEEE equal, or both NaN."""
    x, y = term(a), term(b)
    return _b(z3.Or(z3.fpEQ(x, y), z3.And(z3.fpIsNaN(x), z3.fpIsNaN(y))))


def round_int(a, mode):
    rm = {"floor": z3.RTN(), "ceil": z3.RTP(), "trunc": z3.RTZ(), "round": z3.RNE()}[mode]
    return _mk(z3.fpRoundToIntegral(rm, term(a)))


def sign(a):
    x = term(a)
    one, zero = z3.FPVal(1.0, S32), z3.FPVal(0.0, S32)
    return _mk(z3.If(z3.fpIsNaN(x), x, z3.If(z3.fpGT(x, zero), one, z3.If(z3.fpLT(x, zero), z3.fpNeg(one), zero))))


_NPF = {"exp": np.exp, "log": np.log, "sqrt": np.sqrt, "sin": np.sin, "cos": np.cos, "tanh": np.tanh, "log1p": np.log1p, "expm1": np.expm1,
        "sigmoid": lambda x: np.float32(1) / (np.float32(1) + np.exp(-x))}


def uf1(name, a):
    if name == "sqrt":
        return _mk(z3.fpSqrt(RM, term(a)))
    if is_const(a) and name in _NPF:
        with np.errstate(all="ignore"):
            return val(float(_NPF[name](np.float32(to_float(a)))))
    raise _unsupported(f"{name} of a symbolic float32 element (bit-exact mode models no transcendental functions)")


def model_value(mv):
    """Python float of a model value of a Float32 variable."""
    return to_float(FP(mv))
