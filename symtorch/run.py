"""Path exploration, obligation solving, counterexample replay, evidence and the CLI driver."""
from __future__ import annotations
import argparse
import concurrent.futures as cf
import hashlib
import importlib
import json
import multiprocessing as mp
import os
import random
import signal
import sys
import time
import traceback
from fractions import Fraction

VERIF = os.path.dirname(os.path.dirname(os.path.abspath(__file__)))
REPO = os.environ.get("VERIF_REPO", "/repo")

EXIT_OK, EXIT_VIOLATION, EXIT_INCONCLUSIVE = 0, 1, 2


class Check:
    def __init__(self, name, fn, configs, opts=None, timeout_s=600, doc=""):
        self.name, self.fn, self.configs = name, fn, list(configs)
        self.opts = dict(opts or {})
        self.timeout_s = timeout_s
        self.doc = doc


def grid(**axes):
    import itertools
    keys = list(axes)
    out = []
    for combo in itertools.product(*[axes[k] for k in keys]):
        out.append(dict(zip(keys, combo)))
    return out


# ----------------------------------------------------------------------------- solving
def _axioms(z3, exprs):
    """Instantiated axioms for the uninterpreted transcendental functions that occur."""
    from . import terms as T
    seen, apps = set(), {}
    stack = list(exprs)
    while stack:
        x = stack.pop()
        i = x.get_id()
        if i in seen:
            continue
        seen.add(i)
        if z3.is_app(x):
            nm = x.decl().name()
            if nm.endswith("_") and x.num_args() >= 1 and nm[:-1] in T.UF:
                apps.setdefault(nm[:-1], []).append(x)
            stack.extend(x.children())
    ax = []
    RV = z3.RealVal
    if "exp" in apps:
        E = T.UF["exp"]
        args = [a.arg(0) for a in apps["exp"]]
        ax.append(E(RV(0)) == 1)
        for a in args:
            ax.append(E(a) > 0)
            ax.append(z3.Implies(a <= 0, E(a) <= 1))
            ax.append(z3.Implies(a >= 0, E(a) >= 1))
            ax.append(E(a) >= 1 + a)
        for i in range(len(args)):
            for j in range(i + 1, len(args)):
                a, b = args[i], args[j]
                ax.append(z3.Implies(a < b, E(a) < E(b)))
                ax.append(z3.Implies(b < a, E(b) < E(a)))
        if len(args) <= 6:
            uniq = {a.get_id(): a for a in args}
            cs = list(uniq.values()) + [RV(0)]
            for a in uniq.values():
                for b in uniq.values():
                    if a.get_id() <= b.get_id():
                        for c in cs:
                            ax.append(z3.Implies(c == a + b, E(c) == E(a) * E(b)))
    if "log" in apps:
        L = T.UF["log"]
        args = [a.arg(0) for a in apps["log"]]
        ax.append(L(RV(1)) == 0)
        for a in args:
            ax.append(z3.Implies(a > 1, L(a) > 0))
            ax.append(z3.Implies(z3.And(a > 0, a < 1), L(a) < 0))
        for i in range(len(args)):
            for j in range(i + 1, len(args)):
                a, b = args[i], args[j]
                ax.append(z3.Implies(z3.And(a > 0, a < b), L(a) < L(b)))
                ax.append(z3.Implies(z3.And(b > 0, b < a), L(b) < L(a)))
        if "exp" in apps:
            E = T.UF["exp"]
            for ea in apps["exp"]:
                ax.append(L(ea) == ea.arg(0))
            for a in args:
                ax.append(z3.Implies(a > 0, E(L(a)) == a))
    if "sqrt" in apps:
        S = T.UF["sqrt"]
        for a in [x.arg(0) for x in apps["sqrt"]]:
            ax.append(z3.Implies(a >= 0, z3.And(S(a) >= 0, S(a) * S(a) == a)))
            for k in (Fraction(1, 10**12), Fraction(1, 10**6), Fraction(1, 1000), Fraction(1)):
                ax.append(z3.Implies(a >= RV(k * k), S(a) >= RV(k)))
                ax.append(z3.Implies(z3.And(a >= 0, a <= RV(k * k)), S(a) <= RV(k)))
    if "sigmoid" in apps:
        S = T.UF["sigmoid"]
        for a in [x.arg(0) for x in apps["sigmoid"]]:
            ax.append(z3.And(S(a) > 0, S(a) < 1))
    return ax


def _model_values(z3, e, m):
    from . import terms as T
    out = {}
    for name, (v, kind) in e.vars.items():
        mv = m.eval(v, model_completion=True)
        if kind == "b":
            out[name] = bool(z3.is_true(mv))
        elif kind == "fp":
            from . import fp as _fp
            out[name] = _fp.model_value(mv)
        else:
            n = T._numeral(mv)
            if n is None:
                try:
                    n = Fraction(mv.approx(20).as_fraction().numerator, mv.approx(20).as_fraction().denominator)
                except Exception:
                    n = 0
            out[name] = n
    return out


def _solve(z3, e, neg, timeout_ms):
    """Decide pc /\\ neg.  Returns (verdict, model, seconds, which)."""
    t0 = time.time()
    ax = _axioms(z3, list(e.pc) + [neg])
    r, m = e.check(neg, *ax)
    if r != "unknown":
        return r, m, time.time() - t0, "z3-default"
    for tag, setup in (("z3-arith2", {"smt.arith.solver": 2}), ("z3-arith6-nl", {"smt.arith.solver": 6})):
        s = z3.Solver()
        for k, v in setup.items():
            s.set(k, v)
        s.set("timeout", max(10000, timeout_ms // 3))
        s.add(*e.pc)
        s.add(neg)
        s.add(*ax)
        r = str(s.check())
        if r != "unknown":
            return r, (s.model() if r == "sat" else None), time.time() - t0, tag
    try:
        t = z3.Then(z3.With("simplify", som=True, arith_lhs=True), "smt")
        s = t.solver()
        s.set("timeout", max(10000, timeout_ms // 3))
        s.add(*e.pc)
        s.add(neg)
        s.add(*ax)
        r = str(s.check())
        if r != "unknown":
            return r, (s.model() if r == "sat" else None), time.time() - t0, "z3-som"
    except Exception:
        pass
    return "unknown", None, time.time() - t0, "all"


def _from_library(exc):
    """True when the exception was raised by (or below) library code and not from inside the engine's own operator handlers."""
    tb = exc.__traceback__
    last_lib = last_engine = -1
    i = 0
    while tb is not None:
        fn = tb.tb_frame.f_code.co_filename
        if fn.startswith(REPO + "/inferno"):
            last_lib = i
        elif fn.startswith(VERIF + "/symtorch") and not fn.endswith("/replay.py"):
            last_engine = i
        tb = tb.tb_next
        i += 1
    if getattr(exc, "_symtorch_as_torch", False):
        return last_lib >= 0
    return last_lib >= 0 and last_lib > last_engine


def _replay_once(fn, cfg, model, choices, opts, f64):
    from .replay import ReplayEngine, ReplayMismatch
    from .engine import PathAbort
    from .terms import Unsupported
    r = ReplayEngine(model, choices, opts, f64=f64)
    try:
        with r:
            fn(r, cfg)
    except ReplayMismatch as ex:
        return {"status": "mismatch", "why": str(ex), "failures": r.failures}
    except PathAbort:
        return {"status": "mismatch", "why": "path abort", "failures": r.failures}
    except Unsupported as ex:
        return {"status": "mismatch", "why": f"unsupported in replay: {ex}", "failures": r.failures}
    except Exception as ex:
        if _from_library(ex):
            r.failures.append({"label": f"raises:{type(ex).__name__}", "sig": dict(r.sig, message=str(ex)[:300])})
        else:
            return {"status": "harness-error", "why": "".join(traceback.format_exception(ex))[-2000:], "failures": r.failures}
    return {"status": "ran", "failures": r.failures, "evaluated": r.evaluated}


def replay(fn, cfg, model, choices, opts, label=None):
    """Run the harness concretely; reproduced if an obligation (preferably `label`) fails."""
    last = None
    base = (label or "").split(":shape")[0]
    for f64 in (True, False):
        res = _replay_once(fn, cfg, model, choices, opts, f64)
        res["f64"] = f64
        last = res
        if res["status"] in ("ran", "mismatch") and res["failures"]:
            same = [f for f in res["failures"] if f["label"].split(":shape")[0] == base or f["label"].startswith("raises:") and base.startswith("raises:")]
            if same or label is None:
                res["failures"] = same or res["failures"]
                return True, res
            res["other_failures"] = [f["label"] for f in res["failures"]][:5]
    return False, last


def _has_var(z3, x):
    seen, stack = set(), [x]
    while stack:
        y = stack.pop()
        i = y.get_id()
        if i in seen:
            continue
        seen.add(i)
        if z3.is_const(y) and y.decl().kind() == z3.Z3_OP_UNINTERPRETED:
            return True
        stack.extend(y.children())
    return False


def _nontrivial(z3, cond):
    """non-trivial = the obligation mentions at least one symbolic variable."""
    return _has_var(z3, cond), cond


def explore(fn, cfg, opts):
    """Explore every path of harness fn(e, cfg); returns a JSON-able result."""
    import z3
    from .engine import Engine, PathAbort, Inconclusive
    from .terms import Unsupported
    from . import terms as T
    opts = dict(opts or {})
    max_paths = int(opts.get("max_paths", 4000))
    qt = int(opts.get("query_timeout_ms", 60000))
    res = dict(paths=0, aborted_paths=0, obligations=0, discharged=0, nontrivial=0, queries=0, solver_s=0.0,
               ops=0, symops=0, ops_seen={}, violations=[], inconclusive=[], assumptions=[], samples=[],
               solver_used={}, distinct=set(), inputs=[], trivially_true=0)
    pending = [[]]
    witnessed = {}
    max_viol = int(opts.get("max_violations", 3))
    unconfirmed = unknowns = 0
    stopfile = opts.get("_stopfile")
    while pending:
        if stopfile and os.path.exists(stopfile):
            res["stopped_early"] = "the run's verdict is already settled by violations elsewhere"
            res["not_run"] = True
            break
        if len(res["violations"]) >= max_viol or unconfirmed >= max_viol * 2 or unknowns >= 3:
            res["stopped_early"] = "violation budget reached; remaining paths of this configuration not explored"
            break
        if res["paths"] >= max_paths:
            res["inconclusive"].append(f"path budget {max_paths} exhausted")
            break
        prefix = pending.pop()
        e = Engine(prefix, opts)
        lib_exc = None
        try:
            with e:
                fn(e, cfg)
        except PathAbort:
            res["aborted_paths"] += 1
            pending.extend(e.pending)
            continue
        except Unsupported as u:
            res["inconclusive"].append(f"unsupported: {u}")
            break
        except Inconclusive as u:
            res["inconclusive"].append(f"inconclusive: {u}")
            break
        except RecursionError as ex:
            if _from_library(ex):
                lib_exc = ex
            else:
                raise
        except Exception as ex:
            if _from_library(ex):
                lib_exc = ex
            else:
                res["inconclusive"].append("harness error: " + "".join(traceback.format_exception(ex))[-3000:])
                break
        if lib_exc is not None:
            e.oblige(f"raises:{type(lib_exc).__name__}", False, message=str(lib_exc)[:300])
        for wl, wc in e.witnesses:
            if witnessed.get(wl):
                continue
            witnessed.setdefault(wl, False)
            if not T.is_z(wc):
                witnessed[wl] = witnessed[wl] or bool(wc)
            else:
                rw, _ = e.check(wc)
                # only a solver-proved "unsat" on every path counts as vacuous; "unknown" (time-out) leaves the question open and is not reported
                witnessed[wl] = witnessed[wl] or rw != "unsat"
        res["paths"] += 1
        pending.extend(e.pending)
        if not res["inputs"]:
            res["inputs"] = [list(map(str, i)) for i in e.inputs[:12]]
        for a in e.assumptions:
            if a not in res["assumptions"]:
                res["assumptions"].append(a)
        # concretely false obligations first: they need no solver and exhaust the violation budget quickly
        ordered = sorted(e.obligations, key=lambda o: 0 if (not T.is_z(o.cond) and not o.cond) else 1)
        for ob in ordered:
            res["obligations"] += 1
            if len(res["violations"]) >= max_viol or unconfirmed >= max_viol * 2 or unknowns >= 3:
                res["skipped_after_violations"] = res.get("skipped_after_violations", 0) + 1
                continue
            cond = ob.cond
            if not T.is_z(cond):
                if cond:
                    res["discharged"] += 1
                    res["trivially_true"] += 1
                    continue
                neg = z3.BoolVal(True)
                nontriv = False
            else:
                nontriv, simp = _nontrivial(z3, cond)
                neg = z3.Not(cond)
                if nontriv:
                    h = hashlib.sha1((ob.label + simp.sexpr()).encode()).hexdigest()
                    if h not in res["distinct"]:
                        res["distinct"].add(h)
                        res["nontrivial"] += 1
                        if len(res["samples"]) < 2:
                            sx = simp.sexpr()
                            res["samples"].append({"label": ob.label, "sig": _js(ob.sig), "obligation_smt2": sx[:1500] + (" ..." if len(sx) > 1500 else ""),
                                                   "path_condition_atoms": len(e.pc)})
            verdict, m, secs, which = _solve(z3, e, neg, qt)
            res["solver_used"][which] = res["solver_used"].get(which, 0) + 1
            if verdict == "unsat":
                res["discharged"] += 1
                continue
            if verdict == "unknown":
                unknowns += 1
                res["inconclusive"].append(f"solver unknown on obligation '{ob.label}' sig={_js(ob.sig)}")
                continue
            # candidate counterexample: replay on the plain library before reporting
            confirmed, attempts, rep, model = False, 0, None, None
            block, used_robust = [], False
            while attempts < int(opts.get("replay_attempts", 4)):
                attempts += 1
                model = _model_values(z3, e, m)
                confirmed, rep = replay(fn, cfg, model, list(e.choices) if hasattr(e, "choices") else [], opts, ob.label)
                if confirmed or rep.get("status") == "harness-error":
                    break
                # ask for a different model: first one that violates the obligation by a margin a float replay cannot miss
                rb = getattr(ob, "robust", None)
                if rb is not None and rb is not True and rb is not False and not used_robust:
                    used_robust = True
                    block.append(rb)
                else:
                    diff = [v != m.eval(v, model_completion=True) for (v, k) in e.vars.values() if k != "b"][:64]
                    if not diff:
                        break
                    block.append(z3.Or(diff))
                verdict2, m2, _, _ = _solve(z3, e, z3.And(neg, *block), qt)
                if verdict2 != "sat":
                    break
                m = m2
            v = {"label": ob.label, "sig": _js(ob.sig), "cfg": _js(cfg), "model": {k: _jsv(x) for k, x in (model or {}).items()},
                 "choices": list(getattr(e, "choices", [])), "prefix": [(_jsv(x)) for x in e.taken], "replay": rep, "attempts": attempts}
            if confirmed:
                v["confirmed"] = True
                res["violations"].append(v)
            else:
                unconfirmed += 1
                res["inconclusive"].append(f"candidate counterexample for '{ob.label}' did not reproduce on the real library "
                                           f"({rep.get('status') if rep else None}: {str(rep.get('why', ''))[:500] if rep else ''}) sig={_js(ob.sig)}")
        res["queries"] += e.nqueries
        res["solver_s"] += e.t_solver
        res["ops"] += e.nops
        res["symops"] += e.nsymops
        for k, n in e.ops_seen.items():
            res["ops_seen"][k] = res["ops_seen"].get(k, 0) + n
    res["distinct"] = len(res["distinct"])
    if not pending and not res["violations"] and not res.get("stopped_early"):
        for wl, ok in witnessed.items():
            if not ok:
                res["inconclusive"].append(f"vacuous: reachability witness '{wl}' is unsatisfiable on every path of this configuration")
    res["witnesses"] = {k: bool(v) for k, v in witnessed.items()}
    return res


def _jsv(x):
    if isinstance(x, Fraction):
        return float(x) if x.denominator != 1 else int(x)
    if isinstance(x, (bool, int, float, str)) or x is None:
        return x
    return str(x)


def _js(d):
    if isinstance(d, dict):
        return {str(k): _js(v) for k, v in d.items()}
    if isinstance(d, (list, tuple)):
        return [_js(v) for v in d]
    return _jsv(d)


# ----------------------------------------------------------------------------- workers
class _Timeout(Exception):
    pass


def _alarm(signum, frame):
    raise _Timeout()


def _load(prop):
    sys.path.insert(0, VERIF) if VERIF not in sys.path else None
    sys.path.insert(0, REPO) if REPO not in sys.path else None
    return importlib.import_module(f"harness.{prop}")


_TRACE = {"on": False, "funcs": set()}


def _profile(frame, event, arg):
    if event == "call":
        fn = frame.f_code.co_filename
        if fn.startswith(REPO + "/inferno"):
            _TRACE["funcs"].add(f"{fn[len(REPO) + 1:]}:{frame.f_code.co_qualname}")


def _worker_init():
    """Workers die with the driver (a killed or timed-out check must not leave solver processes behind) and cap z3's memory."""
    try:
        import ctypes
        ctypes.CDLL("libc.so.6", use_errno=True).prctl(1, int(signal.SIGKILL), 0, 0, 0)      # PR_SET_PDEATHSIG
    except Exception:
        pass
    try:
        import z3
        z3.set_param("memory_max_size", int(os.environ.get("VERIF_Z3_MEM_MB", "3000")))
    except Exception:
        pass


def run_chunk(prop, tier, check_name, idxs, trace_first, stopfile=None):
    """Worker entry: explore a chunk of configurations of one check."""
    mod = _load(prop)
    chk = next(c for c in mod.checks(tier) if c.name == check_name)
    import torch
    torch.set_num_threads(1)
    outs = []
    for n, idx in enumerate(idxs):
        if stopfile and os.path.exists(stopfile):
            # the run already has more confirmed violations than it will print: the verdict (exit 1) is settled, the rest is not explored
            outs.append({"check": chk.name, "idx": idx, "cfg": _js(chk.configs[idx]), "not_run": True, "violations": [], "inconclusive": [],
                         "paths": 0, "obligations": 0, "discharged": 0})
            continue
        outs.append(run_one(chk, idx, trace_first and n == 0, stopfile))
        if stopfile and outs[-1].get("violations"):
            # count violations outside the known-findings file across workers; the first worker to see the limit raises the stop flag
            known = load_known()
            nv = sum(1 for v in outs[-1]["violations"] if match_known(known, prop, chk.name, v) is None)
            if nv:
                with open(stopfile + ".n", "a") as f:
                    f.write("x" * nv)
                limit = int(os.environ.get("VERIF_FAILFAST", "24") or 0)
                if limit and os.path.getsize(stopfile + ".n") >= limit and not os.path.exists(stopfile):
                    open(stopfile, "w").close()
    return outs


def run_one(chk, idx, trace, stopfile=None):
    t0 = time.time()
    cfg = chk.configs[idx]
    out = {"check": chk.name, "idx": idx, "cfg": _js(cfg)}
    signal.signal(signal.SIGALRM, _alarm)
    signal.alarm(int(chk.timeout_s))
    try:
        if trace:
            _TRACE["funcs"].clear()
            sys.setprofile(_profile)
        try:
            res = explore(chk.fn, cfg, dict(chk.opts, _stopfile=stopfile) if stopfile else chk.opts)
        finally:
            sys.setprofile(None)
            signal.alarm(0)
        out.update(res)
        if trace:
            out["functions"] = sorted(_TRACE["funcs"])
    except _Timeout:
        out.update({"inconclusive": [f"config timeout {chk.timeout_s}s"], "violations": [], "paths": 0, "obligations": 0, "discharged": 0})
    except Exception as ex:
        out.update({"inconclusive": ["worker error: " + "".join(traceback.format_exception(ex))[-3000:]], "violations": [], "paths": 0,
                    "obligations": 0, "discharged": 0})
    out["wall_s"] = time.time() - t0
    return out


# ----------------------------------------------------------------------------- known findings
def load_known():
    p = os.path.join(VERIF, "known_findings.json")
    if not os.path.exists(p):
        return []
    with open(p) as f:
        return json.load(f).get("findings", [])


def match_known(known, prop, check, viol):
    import re
    for k in known:
        if k.get("property") != prop or k.get("check") != check:
            continue
        if "label" in k and not re.fullmatch(k["label"], viol["label"]):
            continue
        space = dict(viol.get("cfg") or {})
        space.update(viol.get("sig") or {})
        if all(space.get(a) == b for a, b in (k.get("where") or {}).items()):
            return k
    return None


# ----------------------------------------------------------------------------- driver
def main(argv=None):
    ap = argparse.ArgumentParser()
    ap.add_argument("prop")
    ap.add_argument("--tier", default=os.environ.get("VERIF_TIER", "quick"), choices=["quick", "thorough"])
    ap.add_argument("--replay")
    ap.add_argument("--only", help="run only checks whose name contains this")
    ap.add_argument("--jobs", type=int, default=int(os.environ.get("VERIF_JOBS", "0")) or min(16, os.cpu_count() or 4))
    ap.add_argument("--no-evidence", action="store_true")
    ap.add_argument("--max-configs", type=int, default=0)
    args = ap.parse_args(argv)
    prop = args.prop
    seed = int(os.environ.get("VERIF_SEED", "0") or 0)
    t0 = time.time()
    mod = _load(prop)
    if args.replay:
        return do_replay(mod, args.replay)
    checks = [c for c in mod.checks(args.tier) if not args.only or args.only in c.name]
    tasks = []
    for c in checks:
        idxs = list(range(len(c.configs)))
        random.Random(seed).shuffle(idxs)
        if args.max_configs:
            idxs = idxs[:args.max_configs]
        per = max(1, min(int(c.opts.get("chunk", 40)), -(-len(idxs) // (args.jobs * 3))))
        for n in range(0, len(idxs), per):
            tasks.append((prop, args.tier, c.name, idxs[n:n + per], n == 0))
    results = []
    jobs = max(1, min(args.jobs, len(tasks)))
    # fail fast: once this many violations outside the known-findings file are confirmed the verdict is settled (exit 1) and the
    # remaining configurations are not explored (a broken tree otherwise costs hours of satisfiable non-linear queries)
    failfast = int(os.environ.get("VERIF_FAILFAST", "24") or 0)
    import tempfile
    stopfile = os.path.join(tempfile.gettempdir(), f"symtorch_stop_{os.getpid()}_{int(t0)}")
    known = load_known()
    nnew = [0]

    def note(rs):
        for r in rs:
            for v in r.get("violations", []):
                if match_known(known, prop, r["check"], v) is None:
                    nnew[0] += 1
        if failfast and nnew[0] >= failfast and not os.path.exists(stopfile):
            open(stopfile, "w").close()
    if jobs == 1 and sum(len(t[3]) for t in tasks) <= 8:
        for t in tasks:
            rs = run_chunk(*t, stopfile)
            results.extend(rs)
            note(rs)
    else:
        ctx = mp.get_context("spawn")
        with cf.ProcessPoolExecutor(max_workers=jobs, mp_context=ctx, initializer=_worker_init) as ex:
            futs = {ex.submit(run_chunk, *t, stopfile): t for t in tasks}
            for f in cf.as_completed(futs):
                try:
                    rs = f.result()
                    results.extend(rs)
                    note(rs)
                except Exception as exn:
                    t = futs[f]
                    results.append({"check": t[2], "idx": -1, "cfg": {"chunk": list(t[3])[:5]}, "inconclusive": [f"worker crashed: {exn!r}"],
                                    "violations": [], "paths": 0, "obligations": 0, "discharged": 0})
    for f_ in (stopfile, stopfile + ".n"):
        try:
            os.remove(f_)
        except OSError:
            pass
    return summarize(mod, prop, args, seed, checks, results, t0)


def summarize(mod, prop, args, seed, checks, results, t0):
    known = load_known()
    new_viol, known_hits, inconcl = [], {}, []
    agg = dict(paths=0, obligations=0, discharged=0, nontrivial=0, queries=0, solver_s=0.0, ops=0, symops=0, aborted_paths=0)
    ops_seen, functions, samples, solver_used, assumptions = {}, set(), [], {}, []
    per_check = {}
    for r in results:
        pc = per_check.setdefault(r["check"], dict(configs=0, paths=0, obligations=0, discharged=0, nontrivial=0, solver_s=0.0, wall_s=0.0,
                                                   violations=0, inconclusive=0))
        pc["configs"] += 1
        for k in ("paths", "obligations", "discharged", "solver_s", "wall_s"):
            pc[k] += r.get(k, 0) or 0
        pc["nontrivial"] += r.get("distinct", 0) or 0
        for k in agg:
            if k == "nontrivial":
                agg[k] += r.get("distinct", 0) or 0
            else:
                agg[k] += r.get(k, 0) or 0
        for k, n in (r.get("ops_seen") or {}).items():
            ops_seen[k] = ops_seen.get(k, 0) + n
        for k, n in (r.get("solver_used") or {}).items():
            solver_used[k] = solver_used.get(k, 0) + n
        functions.update(r.get("functions") or [])
        for a in r.get("assumptions") or []:
            if a not in assumptions:
                assumptions.append(a)
        if len(samples) < 6:
            for s in (r.get("samples") or [])[:1]:
                samples.append(dict(s, check=r["check"], cfg=r["cfg"], inputs=r.get("inputs")))
        for msg in r.get("inconclusive") or []:
            inconcl.append({"check": r["check"], "cfg": r["cfg"], "why": msg})
            pc["inconclusive"] += 1
        for v in r.get("violations") or []:
            pc["violations"] += 1
            k = match_known(known, prop, r["check"], v)
            if k is not None:
                known_hits.setdefault(k["id"], {"finding": k, "count": 0})["count"] += 1
            else:
                new_viol.append(dict(v, check=r["check"]))
    wall = time.time() - t0
    # ---- report
    replays = []
    seen_keys = set()
    for v in new_viol:
        key = (v["check"], v["label"], json.dumps({k: x for k, x in (v.get("sig") or {}).items() if k not in ("observed", "expected", "message")}, sort_keys=True))
        if key in seen_keys and len(replays) >= 5:
            continue
        seen_keys.add(key)
        d = os.path.join(VERIF, "replays", prop)
        os.makedirs(d, exist_ok=True)
        h = hashlib.sha1(json.dumps(v, sort_keys=True, default=str).encode()).hexdigest()[:12]
        path = os.path.join(d, f"{h}.json")
        with open(path, "w") as f:
            json.dump(dict(v, property=prop, tier=args.tier, replay_cmd=f"cd /verif && ./bin/check {prop} --replay {path}"), f, indent=1, default=str)
        replays.append(path)
        if len(replays) <= 20:
            print(f"VIOLATION property={prop} replay={path}")
            print(f"  check={v['check']} label={v['label']} sig={json.dumps(v.get('sig'), default=str)[:300]} cfg={json.dumps(v.get('cfg'), default=str)[:300]}")
    for kid, h in sorted(known_hits.items()):
        print(f"KNOWN-FINDING: property={prop} {h['finding']['what']} [{kid}; {h['count']} configurations]")
    for i in inconcl[:15]:
        print(f"INCONCLUSIVE check={i['check']} cfg={json.dumps(i['cfg'], default=str)[:200]}: {i['why'][:600]}")
    status = EXIT_VIOLATION if new_viol else (EXIT_INCONCLUSIVE if inconcl else EXIT_OK)
    not_run = sum(1 for r in results if r.get("not_run"))
    if not_run:
        print(f"stopped early: {len(new_viol)} violations were already confirmed, {not_run} configurations were not explored (VERIF_FAILFAST=0 explores everything)")
        if not new_viol:
            status = EXIT_INCONCLUSIVE      # cannot happen (the stop flag is only raised by violations); never report unexplored work as held
    print(f"{prop} [{args.tier}] configs={len(results)} paths={agg['paths']} obligations={agg['obligations']} discharged={agg['discharged']} "
          f"nontrivial={agg['nontrivial']} violations(new)={len(new_viol)} known={sum(h['count'] for h in known_hits.values())} "
          f"inconclusive={len(inconcl)} solver={agg['solver_s']:.1f}s wall={wall:.1f}s -> exit {status}")
    if not args.no_evidence and not args.only and not args.max_configs:
        write_evidence(mod, prop, args, seed, agg, per_check, ops_seen, functions, samples, solver_used, assumptions, new_viol, known_hits, inconcl,
                       wall, len(results))
    return status


def write_evidence(mod, prop, args, seed, agg, per_check, ops_seen, functions, samples, solver_used, assumptions, new_viol, known_hits, inconcl, wall,
                   nconfigs):
    base_assumptions = [
        "float tensor elements are modelled as mathematical reals: rounding of each arithmetic result, overflow and int64 wrap are outside the claim",
        "sizes/shapes/hyper-parameters are enumerated on the stated grid; the solver verdict covers all values of the symbolic elements within one grid point",
        "element-wise meaning of the ATen operators listed under ops_modelled is hand-written (validated in lockstep against the real kernels by selftest)",
        "counterexamples are replayed on the unmodified library before being reported",
    ]
    ev = {
        "property_id": prop, "tier": args.tier, "seed": seed, "level": "model_checking",
        "coverage": {
            "evaluations": int(agg["queries"]) + int(agg["obligations"]),
            "distinct_nontrivial": int(agg["nontrivial"]),
            "rule": "one case = one proof obligation (pc /\\ not ob) sent to the solver for one path of one grid configuration; "
                    "non-trivial = mentions at least one symbolic variable; distinct = by hash of (label, term)",
            "samples": samples or [{"note": "no non-trivial obligation was generated"}],
            "obligations": int(agg["obligations"]), "discharged": int(agg["discharged"]),
            "paths": int(agg["paths"]), "infeasible_paths": int(agg["aborted_paths"]), "configurations": nconfigs,
            "solver_queries": int(agg["queries"]), "solver_time_s": round(agg["solver_s"], 2), "solver_used": solver_used,
            "aten_ops_executed": int(agg["ops"]), "aten_ops_symbolic": int(agg["symops"]), "ops_modelled": dict(sorted(ops_seen.items())),
            "functions_encoded": sorted(functions)[:400],
            "per_check": per_check,
            "bounds": getattr(mod, "BOUNDS", {}).get(args.tier, getattr(mod, "BOUNDS", {})),
            "outside_claim": getattr(mod, "OUTSIDE", []),
            "known_findings_hit": {k: h["count"] for k, h in known_hits.items()},
            "inconclusive": [f"{i['check']}: {i['why'][:300]}" for i in inconcl[:20]],
            "exhaustive": False,
            "explanation": "bounded symbolic execution of the real source under a TorchDispatchMode; every obligation of every explored path is decided by z3",
        },
        "assumptions": base_assumptions + list(getattr(mod, "ASSUMPTIONS", [])) + assumptions,
        "wall_s": round(wall, 2), "violations": len(new_viol),
    }
    os.makedirs(os.path.join(VERIF, "evidence"), exist_ok=True)
    with open(os.path.join(VERIF, "evidence", f"{prop}.json"), "w") as f:
        json.dump(ev, f, indent=1, default=str)


def do_replay(mod, path):
    with open(path) as f:
        v = json.load(f)
    chk = next(c for c in mod.checks(v.get("tier", "quick")) if c.name == v["check"])
    cfg = v["cfg"]
    # configurations are stored JSON-ified; find the original by equality of the JSON form
    for c in chk.configs:
        if _js(c) == cfg:
            cfg = c
            break
    model = {k: (Fraction(x).limit_denominator(10**12) if isinstance(x, float) else x) for k, x in v["model"].items()}
    ok, rep = replay(chk.fn, cfg, model, v.get("choices", []), chk.opts, v["label"])
    print(json.dumps(rep, indent=1, default=str)[:4000])
    if ok:
        print(f"VIOLATION property={v['property']} replay={path}")
        return EXIT_VIOLATION
    print("replay did not reproduce")
    return EXIT_OK


if __name__ == "__main__":
    sys.exit(main())
