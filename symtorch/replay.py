"""Concrete re-execution of a harness on the plain library (no symbolic shadow).

The ReplayEngine offers the same API as Engine, but every input is a concrete tensor
built from a solver model, the real kernels compute everything, and obligations are
evaluated numerically.  A counterexample is only reported when it fails here as well.
"""
from __future__ import annotations
import math
from fractions import Fraction

import numpy as np
import torch
from torch.utils._python_dispatch import TorchDispatchMode

from . import terms as T
from .engine import tensor_to_obj, obj, ufunc, PathAbort


class ReplayMismatch(Exception):
    """The model does not satisfy an assumption once rounded to machine numbers."""


def _close(a, b, rtol, atol):
    if isinstance(a, T.XR) or isinstance(b, T.XR):
        if isinstance(a, T.XR) and isinstance(b, T.XR):
            return (bool(a.nan), bool(a.pinf), bool(a.ninf)) == (bool(b.nan), bool(b.pinf), bool(b.ninf))
        return False
    if isinstance(a, bool) or isinstance(b, bool):
        return bool(a) == bool(b)
    a, b = float(a), float(b)
    return abs(a - b) <= atol + rtol * max(abs(a), abs(b))


class ReplayRNG(TorchDispatchMode):
    """Feeds the model's random draws to the real library (RNG replaced, nothing else)."""

    def __init__(self, eng):
        super().__init__()
        self.eng = eng
        self.k = 0

    def __torch_dispatch__(self, func, types, args=(), kwargs=None):
        from . import ops
        kwargs = kwargs or {}
        if func not in ops.RANDOM:
            return func(*args, **kwargs)
        self.eng.rng_calls.append((str(func), ops.bind(func, args, kwargs).get("generator")))
        real = func(*args, **kwargs)
        k = self.k
        self.k += 1
        tag = None
        for nm in self.eng.model:
            if nm.startswith(f"rng{k}_"):
                tag = nm.split("[")[0]
                break
        if tag is None:
            return real
        out = real if isinstance(real, torch.Tensor) else args[0]
        shape = tuple(out.shape)
        vals = torch.empty(shape, dtype=torch.float64)
        for ix in (np.ndindex(*shape) if shape else [()]):
            v = self.eng.model.get(f"{tag}{list(ix)}")
            if v is None:
                v = float(out[ix]) if shape else float(out)
            vals[ix] = float(v)
        out.copy_(vals.to(out.dtype))
        return out


class ReplayEngine:
    concrete = True

    def __init__(self, model, choices=(), opts=None, f64=True):
        self.model = dict(model)
        self.choices = list(choices)
        self._ci = 0
        self.opts = dict(opts or {})
        self.f64 = f64
        self.failures = []
        self.rng_calls = []
        self.evaluated = 0
        self.sig = {}
        self.assumptions = []
        self.inputs = []
        self.rtol = float(self.opts.get("replay_rtol", 1e-9 if f64 else 1e-4))
        self.atol = float(self.opts.get("replay_atol", 1e-11 if f64 else 1e-5))
        self._rng = None
        self._old_default = None

    def __enter__(self):
        self._old_default = torch.get_default_dtype()
        if self.f64:
            torch.set_default_dtype(torch.float64)
        from . import engine as _eng
        _eng.REPLAY_F64[0] = bool(self.f64)
        T.DIV_POLICY[0] = "xr"
        self._rng = ReplayRNG(self)      # always on: injects the model's draws (if any) and records the generator of every random op
        self._rng.__enter__()
        return self

    def __exit__(self, *a):
        if self._rng is not None:
            self._rng.__exit__(*a)
            self._rng = None
        torch.set_default_dtype(self._old_default)
        from . import engine as _eng
        _eng.REPLAY_F64[0] = False
        T.DIV_POLICY[0] = "assume"
        return False

    # --- inputs
    def _dtype(self, dtype):
        if self.f64 and dtype in (torch.float32, torch.float16, torch.bfloat16):
            return torch.float64
        return dtype

    def _val(self, name, kind, lo=None):
        v = self.model.get(name)
        if v is None:
            v = lo if lo is not None else 0
        if kind == "b":
            return bool(v)
        if kind == "i":
            return int(v)
        return float(v)

    def sym(self, shape, dtype=torch.float32, name="x", lo=None, hi=None, ind=False, nan=False):
        shape = tuple(shape)
        k = T.kind_of(dtype)
        dt = self._dtype(dtype)
        t = torch.zeros(shape, dtype=dt)
        for ix in (np.ndindex(*shape) if shape else [()]):
            nm = f"{name}{list(ix)}"
            v = self._val(nm, k, lo)
            if k == "b" and ind:
                v = bool(round(float(self.model.get(nm, 0))))
            if nan and self.model.get(nm + "#nan"):
                v = float("nan")
            t[ix] = v
        return t

    def scalar(self, name, kind="f", lo=None, hi=None):
        v = self._val(name, kind, lo)
        return T.num(v)

    def const(self, value, dtype=torch.float32):
        return torch.as_tensor(value, dtype=self._dtype(dtype)).clone()

    def lift(self, arr, dtype):
        arr = arr if isinstance(arr, np.ndarray) else obj(arr)
        def conc(v):
            if isinstance(v, T.XR):
                return float("nan") if v.nan else (float("inf") if v.pinf else (float("-inf") if v.ninf else float(v.val)))
            return v if isinstance(v, (bool, int)) else float(v)
        lst = ufunc(conc, 1)(arr).tolist() if arr.size or arr.ndim == 0 else []
        return torch.tensor(lst, dtype=self._dtype(dtype)).reshape(arr.shape)

    # --- reading
    def read(self, t):
        return tensor_to_obj(t)

    def is_symbolic(self, t):
        return False

    # --- control
    def assume(self, cond, note=None):
        c = T.tob(cond)
        if T.is_z(c):
            raise ReplayMismatch("symbolic assumption in replay")
        if not c:
            raise ReplayMismatch("model violates an assumption after rounding")

    def branch(self, cond):
        return bool(T.tob(cond))

    def choose(self, n, tag=None):
        if self._ci < len(self.choices):
            v = self.choices[self._ci]
        else:
            v = 0
        self._ci += 1
        return v

    def concretize_int(self, term):
        return int(term)

    def tag(self, **kw):
        self.sig.update(kw)

    def witness(self, label, cond):
        pass

    # --- obligations
    def oblige(self, label, cond, **sig):
        self.evaluated += 1
        c = T.tob(cond)
        if T.is_z(c):
            raise ReplayMismatch("symbolic obligation in replay")
        if not c:
            s = dict(self.sig)
            s.update(sig)
            self.failures.append({"label": label, "sig": s})

    def all_same(self, got, expected):
        a = self.read(got) if isinstance(got, torch.Tensor) else (got if isinstance(got, np.ndarray) else obj(got))
        b = self.read(expected) if isinstance(expected, torch.Tensor) else (expected if isinstance(expected, np.ndarray) else obj(expected))
        if a.shape != b.shape:
            return False
        return all(_close(x, y, self.rtol, self.atol) for x, y in zip(a.reshape(-1), b.reshape(-1)))

    def oblige_eq(self, label, got, expected, **sig):
        a_shape = tuple(got.shape) if hasattr(got, "shape") else ()
        b_shape = tuple(expected.shape) if hasattr(expected, "shape") else np.shape(expected)
        if a_shape != tuple(b_shape):
            self.oblige(label + ":shape", False, got_shape=list(a_shape), expected_shape=list(b_shape), **sig)
            return
        sig.pop("split", None)
        ok = self.all_same(got, expected)
        if not ok:
            a = self.read(got) if isinstance(got, torch.Tensor) else np.asarray(got, dtype=object)
            b = self.read(expected) if isinstance(expected, torch.Tensor) else np.asarray(expected, dtype=object)
            def show(x):
                return [str(v) if isinstance(v, T.XR) else (v if isinstance(v, bool) else float(v)) for v in np.asarray(x, dtype=object).reshape(-1)][:16]
            sig = dict(sig, observed=show(a), expected=show(b))
        self.oblige(label, ok, **sig)
