"""Symbolic shadow execution of real PyTorch programs.

The code under test runs unmodified on the real PyTorch runtime.  A TorchDispatchMode
intercepts every ATen operator; tensors whose *storage* is registered in the side table
carry one symbolic element (see terms.py) per storage slot.  PyTorch decides shapes,
strides, dtypes and aliasing; the engine supplies the element-wise meaning.
"""
from __future__ import annotations
import contextlib
import itertools
import time
import traceback
from fractions import Fraction

import numpy as np
import torch
import z3
from torch.overrides import TorchFunctionMode
from torch.utils._python_dispatch import TorchDispatchMode, _disable_current_modes

from . import terms as T
from .terms import Unsupported

aten = torch.ops.aten


class PathAbort(BaseException):
    """The current path is infeasible (its path condition is unsatisfiable)."""


class Inconclusive(Exception):
    """Budget exhausted / solver unknown: the run cannot claim anything."""


@contextlib.contextmanager
def raw():
    """Run real torch code with every mode switched off (engine-internal reads)."""
    with _disable_current_modes(), torch._C.DisableTorchFunction():
        yield


def ufunc(f, n):
    return np.frompyfunc(f, n, 1)


def obj(arr, shape=None):
    a = np.empty(np.shape(arr) if shape is None else shape, dtype=object)
    if a.ndim == 0:
        a[()] = arr if not isinstance(arr, np.ndarray) else arr[()]
    else:
        a[...] = arr
    return a


def tensor_to_obj(t):
    """Exact element array of a concrete tensor."""
    with raw():
        t = t.detach()
        if t.is_sparse or t.layout != torch.strided:
            raise Unsupported("non-strided tensor")
        if t.dtype in (torch.bfloat16, torch.float16):
            t = t.float()
        lst = t.cpu().tolist()
    a = np.empty(tuple(t.shape), dtype=object)
    if a.ndim == 0:
        a[()] = T.num(lst)
        return a
    if a.size:
        flat = np.array(lst, dtype=object).reshape(-1) if a.ndim == 1 else np.array(_flatten(lst), dtype=object)
        a[...] = ufunc(T.num, 1)(flat).reshape(a.shape)
    return a


def _flatten(l):
    out = []
    stack = [l]
    # iterative flatten preserving order
    def rec(x):
        if isinstance(x, list):
            for i in x:
                rec(i)
        else:
            out.append(x)
    rec(l)
    return out


REPLAY_F64 = [False]   # set while a float64 replay runs: constants then stay doubles, as the library sees them there


def round_to_dtype(x, dtype):
    """Round a concrete rational to the nearest value of a floating dtype."""
    if REPLAY_F64[0]:
        return x
    if isinstance(x, Fraction) and dtype in (torch.float32, torch.float16, torch.bfloat16):
        if dtype == torch.float32:
            return Fraction(float(np.float32(float(x))))
        with raw():
            return Fraction(float(torch.tensor(float(x), dtype=dtype)))
    return x


class Obligation:
    __slots__ = ("label", "cond", "sig", "robust")

    def __init__(self, label, cond, sig, robust=None):
        self.label, self.cond, self.sig, self.robust = label, cond, sig, robust


def _far(a, b):
    """Boolean element: a and b differ by a margin a float replay cannot miss (None if not numeric).
    Only a search hint for counterexamples that survive rounding; never part of a verdict."""
    try:
        if isinstance(a, (bool, T.Ind)) or isinstance(b, (bool, T.Ind)) or (T.is_z(a) and z3.is_bool(a)) or (T.is_z(b) and z3.is_bool(b)):
            return None
        if isinstance(a, T.XR) or isinstance(b, T.XR):
            return None
        d = T.abs_(T.sub(a, b))
        r = T.tob(T.gt(d, Fraction(1, 64)))
        return r
    except Exception:
        return None


class Engine(TorchDispatchMode):
    concrete = False

    def __init__(self, prefix=(), opts=None):
        super().__init__()
        self.opts = dict(opts or {})
        self.store = {}  # storage cdata -> (storage, flat object array)
        self.rng_calls = []   # (op, generator argument) of every random op executed on this path
        self.witnesses = []   # (label, condition) reachability witnesses of this path
        self.solver = z3.Solver()
        self.qtimeout = int(self.opts.get("query_timeout_ms", 60000))
        self.solver.set("timeout", self.qtimeout)
        self.prefix = list(prefix)
        self.taken = []
        self.pending = []
        self.choices = []
        self.obligations = []
        self.assumptions = []  # human-readable side assumptions (division etc.)
        self.vars = {}  # name -> (z3 var, kind)
        self.inputs = []  # (name, shape, dtype_str) in creation order
        self.nops = 0
        self.nsymops = 0
        self.ops_seen = {}
        self.t_solver = 0.0
        self.nqueries = 0
        self.sig = {}
        self.pc = []  # list of z3 Bool (assumptions + decisions), mirrors solver
        self.max_int_fork = int(self.opts.get("max_int_fork", 64))
        self._fn_mode = FnMode(self)
        T.reset_state()
        T.DIV_POLICY[0] = self.opts.get("div_policy", "assume")
        T.DIV_HOOK[0] = self._div_side_condition
        T.FINITE_HOOK[0] = self._provably_false

    # ---------------------------------------------------------------- context
    def __enter__(self):
        super().__enter__()
        self._fn_mode.__enter__()
        return self

    def __exit__(self, *a):
        self._fn_mode.__exit__(*a)
        T.DIV_HOOK[0] = None
        T.FINITE_HOOK[0] = None
        return super().__exit__(*a)

    # ---------------------------------------------------------------- storage table
    @staticmethod
    def _offsets(t):
        idx = np.full(tuple(t.shape), t.storage_offset(), dtype=np.int64)
        for d, (n, s) in enumerate(zip(t.shape, t.stride())):
            sh = [1] * t.dim()
            sh[d] = n
            idx = idx + (np.arange(n, dtype=np.int64) * s).reshape(sh)
        return idx

    def is_symbolic(self, t):
        if not isinstance(t, torch.Tensor):
            return False
        if t.device.type == "meta":
            return False
        try:
            return t.untyped_storage()._cdata in self.store
        except (RuntimeError, NotImplementedError):
            return False

    def read(self, t):
        """Element array (numpy object array of t.shape) of any tensor."""
        if isinstance(t, torch.nn.parameter.UninitializedTensorMixin):
            raise Unsupported("read of an uninitialized tensor")
        key = t.untyped_storage()._cdata
        if key in self.store:
            flat = self.store[key][1]
            if t.dim():
                return flat[self._offsets(t)]
            return obj(flat[t.storage_offset()], ())
        return tensor_to_obj(t)

    def write(self, t, arr):
        st = t.untyped_storage()
        key = st._cdata
        if key not in self.store:
            n = st.nbytes() // t.element_size()
            with raw():
                base = torch.empty(0, dtype=t.dtype).set_(st, 0, (n,), (1,))
            flat = np.empty(n, dtype=object)
            if n:
                flat[:] = tensor_to_obj(base)
            self.store[key] = (st, flat)
        flat = self.store[key][1]
        arr = np.broadcast_to(obj(arr) if not isinstance(arr, np.ndarray) else arr, tuple(t.shape))
        if t.dim():
            flat[self._offsets(t)] = arr
        else:
            flat[t.storage_offset()] = arr[()]

    def lift(self, arr, dtype):
        """Fresh tensor of the given dtype whose shadow is arr."""
        arr = arr if isinstance(arr, np.ndarray) else obj(arr)
        with raw():
            t = torch.zeros(arr.shape, dtype=dtype)
        k = T.kind_of(dtype)
        self.write(t, ufunc(lambda v: T.fix_kind(v, k), 1)(arr) if arr.size else arr)
        return t

    # ---------------------------------------------------------------- inputs
    def _var(self, name, kind):
        if name in self.vars:
            return self.vars[name][0]
        if kind == "fp":
            from . import fp as _fp
            v = z3.FP(name, _fp.S32)
        else:
            v = {"b": z3.Bool, "i": z3.Int, "f": z3.Real, "ind": z3.Real}[kind](name)
        self.vars[name] = (v, kind)
        if kind == "ind":
            self._add(z3.Or(v == 0, v == 1))
        return v

    def sym(self, shape, dtype=torch.float32, name="x", lo=None, hi=None, ind=False, nan=False):
        """A fresh symbolic input tensor.  lo/hi bound every element (inclusive)."""
        shape = tuple(shape)
        k = T.kind_of(dtype)
        arr = np.empty(shape, dtype=object)
        for ix in (np.ndindex(*shape) if shape else [()]):
            nm = f"{name}{list(ix)}"
            if k == "b" and ind:
                arr[ix] = T.mk_ind(self._var(nm, "ind"))
                continue
            if k == "f" and dtype == torch.float32 and self.opts.get("fp32"):
                # bit-exact mode: an IEEE float32 variable (finite unless nan=True), bounds are float32 constants
                from . import fp as _fp
                v = self._var(nm, "fp")
                self._add(z3.Not(z3.fpIsInf(v)))
                if not nan:
                    self._add(z3.Not(z3.fpIsNaN(v)))
                if lo is not None:
                    self._add(z3.Or(z3.fpIsNaN(v), z3.fpGEQ(v, _fp.val(lo).t)))
                if hi is not None:
                    self._add(z3.Or(z3.fpIsNaN(v), z3.fpLEQ(v, _fp.val(hi).t)))
                arr[ix] = _fp.FP(v)
                continue
            v = self._var(nm, k)
            if lo is not None:
                self._add(v >= (z3.RealVal(Fraction(lo)) if k == "f" else lo))
            if hi is not None:
                self._add(v <= (z3.RealVal(Fraction(hi)) if k == "f" else hi))
            if nan and k == "f":
                arr[ix] = T.XR(self._var(nm + "#nan", "b"), False, False, v)
            else:
                arr[ix] = v
        self.inputs.append((name, shape, str(dtype).replace("torch.", ""), bool(ind)))
        with raw():
            t = torch.zeros(shape, dtype=dtype)
        self.write(t, arr)
        return t

    def scalar(self, name, kind="f", lo=None, hi=None):
        """A fresh symbolic element (not a tensor)."""
        v = self._var(name, kind)
        if lo is not None:
            self._add(v >= (z3.RealVal(Fraction(lo)) if kind == "f" else lo))
        if hi is not None:
            self._add(v <= (z3.RealVal(Fraction(hi)) if kind == "f" else hi))
        self.inputs.append((name, None, kind, False))
        return v

    def const(self, value, dtype=torch.float32):
        with raw():
            return torch.as_tensor(value, dtype=dtype).clone()

    # ---------------------------------------------------------------- solver
    def _add(self, c):
        self.solver.add(c)
        self.pc.append(c)

    def assume(self, cond, note=None):
        c = T.tob(cond)
        if not T.is_z(c):
            if not c:
                raise PathAbort()
            return
        self._add(c)
        if note:
            self.assumptions.append(note)

    def _provably_false(self, flag):
        r, _ = self.check(flag)
        return r == "unsat"

    def _div_side_condition(self, b):
        c = b != 0
        self._add(c)
        if "division by a symbolic term assumed non-zero" not in self.assumptions:
            self.assumptions.append("division by a symbolic term assumed non-zero")

    def check(self, *extra):
        t0 = time.time()
        if self.opts.get("fp32"):
            # bit-exact mode: the eager bit-blasting tactic decides float32 queries orders of magnitude faster than the lazy default
            try:
                s = z3.Tactic("qffp").solver()
                s.set("timeout", self.qtimeout)
                s.add(*self.pc)
                s.add(*extra)
                r = s.check()
                if r != z3.unknown:
                    self.t_solver += time.time() - t0
                    self.nqueries += 1
                    return str(r), (s.model() if r == z3.sat else None)
            except z3.Z3Exception:
                pass
        self.solver.push()
        for x in extra:
            self.solver.add(x)
        try:
            r = self.solver.check()
        except z3.Z3Exception:       # (memory cap reached)
            r = z3.unknown
        m = self.solver.model() if r == z3.sat else None
        self.solver.pop()
        self.t_solver += time.time() - t0
        self.nqueries += 1
        return str(r), m

    def branch(self, cond):
        """Fork on a boolean element; returns the concrete direction of this path."""
        cond = T.tob(cond)
        if not T.is_z(cond):
            return bool(cond)
        cond = z3.simplify(cond)
        if z3.is_true(cond):
            return True
        if z3.is_false(cond):
            return False
        i = len(self.taken)
        if i < len(self.prefix):
            v = self.prefix[i]
        else:
            rt, _ = self.check(cond)
            rf, _ = self.check(z3.Not(cond))
            if "unknown" in (rt, rf):
                raise Inconclusive("solver returned unknown on a branch feasibility query")
            can_t, can_f = rt == "sat", rf == "sat"
            if can_t and can_f:
                v = True
                self.pending.append(self.taken + [False])
            elif can_t:
                v = True
            elif can_f:
                v = False
            else:
                raise PathAbort()
        self.taken.append(v)
        self._add(cond if v else z3.Not(cond))
        return v

    def choose(self, n, tag=None):
        """Nondeterministic choice in range(n): every alternative is explored."""
        i = len(self.taken)
        if i < len(self.prefix):
            v = self.prefix[i]
        else:
            v = 0
            for other in range(n - 1, 0, -1):
                self.pending.append(self.taken + [other])
        self.taken.append(v)
        self.choices.append(v)
        return v

    def concretize_int(self, term):
        """Fork over the feasible values of a symbolic integer."""
        if not T.is_z(term):
            return int(term)
        term = z3.simplify(term)
        n = T._numeral(term)
        if n is not None:
            return int(n)
        i = len(self.taken)
        if i < len(self.prefix):
            v = self.prefix[i]
        else:
            vals = []
            self.solver.push()
            while len(vals) <= self.max_int_fork:
                t0 = time.time()
                r = self.solver.check()
                self.t_solver += time.time() - t0
                self.nqueries += 1
                if str(r) == "unknown":
                    self.solver.pop()
                    raise Inconclusive("unknown while enumerating integer values")
                if r != z3.sat:
                    break
                mv = self.solver.model().eval(term, model_completion=True)
                mv = T._numeral(mv)
                if mv is None:
                    self.solver.pop()
                    raise Inconclusive("non-numeral model value")
                mv = int(mv)
                vals.append(mv)
                self.solver.add(term != mv)
            self.solver.pop()
            if len(vals) > self.max_int_fork:
                raise Inconclusive("too many feasible integer values to fork on")
            if not vals:
                raise PathAbort()
            vals.sort()
            v = vals[0]
            for other in reversed(vals[1:]):
                self.pending.append(self.taken + [other])
        self.taken.append(v)
        self._add(term == v)
        return v

    # ---------------------------------------------------------------- obligations
    def tag(self, **kw):
        self.sig.update(kw)

    def oblige(self, label, cond, **sig):
        s = dict(self.sig)
        s.update(sig)
        self.obligations.append(Obligation(label, T.tob(cond), s))

    def witness(self, label, cond):
        """Reachability witness (vacuity guard): the situation `cond` must be satisfiable on at least one explored path of the
        configuration, otherwise the configuration's obligations say nothing about it and the run is inconclusive."""
        self.witnesses.append((label, T.tob(cond)))

    def all_same(self, got, expected):
        """Boolean element: two element arrays are element-wise equal (NaN == NaN)."""
        a = self.read(got) if isinstance(got, torch.Tensor) else (got if isinstance(got, np.ndarray) else obj(got))
        b = self.read(expected) if isinstance(expected, torch.Tensor) else (expected if isinstance(expected, np.ndarray) else obj(expected))
        if a.shape != b.shape:
            return False
        acc = True
        for x, y in zip(a.reshape(-1), b.reshape(-1)):
            acc = T.band(acc, T.tob(T.same(x, y)))
        return acc

    def oblige_eq(self, label, got, expected, **sig):
        a_shape = tuple(got.shape) if hasattr(got, "shape") else ()
        b_shape = tuple(expected.shape) if hasattr(expected, "shape") else np.shape(expected)
        if a_shape != tuple(b_shape):
            self.oblige(label + ":shape", False, got_shape=list(a_shape), expected_shape=list(b_shape), **sig)
            return
        if sig.pop("split", False):
            a = self.read(got) if isinstance(got, torch.Tensor) else (got if isinstance(got, np.ndarray) else obj(got))
            b = self.read(expected) if isinstance(expected, torch.Tensor) else (expected if isinstance(expected, np.ndarray) else obj(expected))
            for pos in (np.ndindex(*a.shape) if a.shape else [()]):
                self.oblige(label, T.tob(T.same(a[pos], b[pos])), elem=list(pos), **sig)
                self.obligations[-1].robust = _far(a[pos], b[pos])
            return
        self.oblige(label, self.all_same(got, expected), **sig)
        try:
            a = self.read(got) if isinstance(got, torch.Tensor) else (got if isinstance(got, np.ndarray) else obj(got))
            b = self.read(expected) if isinstance(expected, torch.Tensor) else (expected if isinstance(expected, np.ndarray) else obj(expected))
            fars = [f for f in (_far(x, y) for x, y in zip(a.reshape(-1), b.reshape(-1))) if f is not None and f is not False]
            if fars:
                self.obligations[-1].robust = True if any(f is True for f in fars) else z3.Or(*fars)
        except Exception:
            pass

    # ---------------------------------------------------------------- dispatch
    def __torch_dispatch__(self, func, types, args=(), kwargs=None):
        from . import ops
        kwargs = kwargs or {}
        self.nops += 1
        return ops.dispatch(self, func, args, kwargs)

    # ---------------------------------------------------------------- meta inference
    def meta_out(self, func, args, kwargs):
        def m(x):
            if isinstance(x, torch.Tensor):
                return torch.empty_strided(x.shape, x.stride(), dtype=x.dtype, device="meta")
            if isinstance(x, (list, tuple)):
                return type(x)(m(i) for i in x)
            return x
        with raw():
            kw = {k: ("meta" if k == "device" and v is not None else m(v)) for k, v in kwargs.items()}
            return func(*m(args), **kw)

    def out(self, func, args, kwargs, arr):
        """Allocate the result tensor (shape/dtype from PyTorch's own meta kernel)."""
        arr = arr if isinstance(arr, np.ndarray) else obj(arr)
        try:
            mo = self.meta_out(func, args, kwargs)
        except NotImplementedError:
            # data-dependent output shape (boolean-mask indexing): no meta kernel; the handler's shape is authoritative
            first = next(a for a in args if isinstance(a, torch.Tensor))
            return self.lift(arr, first.dtype)
        if isinstance(mo, (tuple, list)):
            raise Unsupported(f"multi-output {func}")
        if tuple(mo.shape) != tuple(arr.shape):
            raise Unsupported(f"handler shape {arr.shape} != meta shape {tuple(mo.shape)} for {func}")
        return self.lift(arr, mo.dtype)


class FnMode(TorchFunctionMode):
    """Python-level escapes that would read the carrier of a symbolic tensor."""

    def __init__(self, eng):
        super().__init__()
        self.eng = eng

    def __torch_function__(self, func, types, args=(), kwargs=None):
        kwargs = kwargs or {}
        e = self.eng
        if func is torch.Tensor.__getitem__ or func is torch.Tensor.__setitem__:
            from .scalar import conc_index
            args = (args[0], conc_index(args[1])) + tuple(args[2:])
            return func(*args, **kwargs)
        if args and isinstance(args[0], torch.Tensor) and func in _ESCAPES and e.is_symbolic(args[0]):
            name = _ESCAPES[func]
            if name in ("__format__", "__repr__", "__str__"):
                return "<symbolic>"
            if name == "__deepcopy__":
                t = args[0]
                with torch.no_grad():
                    c = t.detach().clone()
                if isinstance(t, torch.nn.Parameter):
                    c = torch.nn.Parameter(c, t.requires_grad)
                args[1][id(t)] = c
                return c
            if name == "tolist":
                t = args[0]
                arr = e.read(t)
                def conc(v):
                    if T.is_sym(v):
                        raise Unsupported("tolist() of a symbolic tensor")
                    return float(v) if isinstance(v, Fraction) else v
                return ufunc(conc, 1)(arr).tolist() if arr.ndim else conc(arr[()])
            raise Unsupported(f"Tensor.{name} on a symbolic tensor")
        return func(*args, **kwargs)


_ESCAPES = {
    torch.Tensor.__format__: "__format__",
    torch.Tensor.__repr__: "__repr__",
    torch.Tensor.__str__: "__str__",
    torch.Tensor.__deepcopy__: "__deepcopy__",
    torch.Tensor.tolist: "tolist",
    torch.Tensor.numpy: "numpy",
    torch.Tensor.__array__: "__array__",
    torch.Tensor.__reduce_ex__: "__reduce_ex__",
}
