"""ATen operator semantics over symbolic elements (see terms.py) and the dispatcher."""
from __future__ import annotations
import itertools
import math
from fractions import Fraction

import numpy as np
import torch

from . import terms as T
from .terms import Unsupported
from .engine import aten, obj, ufunc, raw, round_to_dtype, tensor_to_obj

PURE = {}      # functional op -> compute(e, b) -> np.ndarray           (b = bound args)
SPECIAL = {}   # op -> handler(e, func, args, kwargs) -> result          (full control)
RANDOM = {}    # op -> handler(e, func, args, kwargs), always intercepted
PASSTHROUGH = set()   # run the real kernel even with symbolic args (aliasing / value independent)


def pure(*ops):
    def d(f):
        for o in ops:
            PURE[o] = f
        return f
    return d


def special(*ops):
    def d(f):
        for o in ops:
            SPECIAL[o] = f
        return f
    return d


def rnd(*ops):
    def d(f):
        for o in ops:
            RANDOM[o] = f
        return f
    return d


def _maybe(*names):
    out = []
    for n in names:
        pkt, _, ov = n.partition(".")
        p = getattr(aten, pkt, None)
        if p is None:
            continue
        o = getattr(p, ov or "default", None)
        if o is not None:
            out.append(o)
    return out


def bind(func, args, kwargs):
    sch = func._schema
    out = {}
    for i, a in enumerate(sch.arguments):
        if i < len(args):
            out[a.name] = args[i]
        elif a.name in kwargs:
            out[a.name] = kwargs[a.name]
        elif a.has_default_value():
            out[a.name] = a.default_value
        else:
            out[a.name] = None
    return out


def _tensors(x, acc):
    if isinstance(x, torch.Tensor):
        acc.append(x)
    elif isinstance(x, (list, tuple)):
        for i in x:
            _tensors(i, acc)
    return acc


_VIEW_CACHE = {}


def is_view_op(func):
    r = _VIEW_CACHE.get(func)
    if r is None:
        sch = func._schema
        rets = [x for x in sch.returns if x.alias_info is not None]
        writes = [a for a in sch.arguments if a.alias_info is not None and a.alias_info.is_write]
        r = bool(rets) and not writes and all(not x.alias_info.is_write for x in rets)
        _VIEW_CACHE[func] = r
    return r


def _inplace_base(func):
    """aten.add_.Tensor -> aten.add.Tensor if such a functional op has a PURE handler."""
    name = func._schema.name  # aten::add_
    if not name.endswith("_") or name.endswith("__"):
        return None
    base = name.split("::")[1][:-1]
    pkt = getattr(aten, base, None)
    if pkt is None:
        return None
    ov = getattr(pkt, func._overloadname or "default", None)
    return ov if ov in PURE else None


def _out_base(func):
    """aten.lt.Scalar_out -> aten.lt.Scalar (aten.logical_and.out -> .default) if that functional overload has a PURE handler."""
    ovn = func._overloadname or ""
    if not (ovn == "out" or ovn.endswith("_out")):
        return None
    outs = [a for a in func._schema.arguments if a.is_out]
    if len(outs) != 1:
        return None
    base = func._schema.name.split("::")[1]
    pkt = getattr(aten, base, None)
    if pkt is None:
        return None
    ov = getattr(pkt, "default" if ovn == "out" else ovn[:-4], None)
    return ov if ov in PURE else None


def raw_():
    from .engine import raw
    return raw()


def as_torch_error(msg):
    """An error PyTorch itself would raise for these arguments (shape mismatch); attributed to the calling library code."""
    ex = RuntimeError(msg)
    ex._symtorch_as_torch = True
    return ex


def dispatch(e, func, args, kwargs):
    if func in RANDOM:
        # record which generator every random draw is taken from (dataflow fact used by reproducibility obligations)
        e.rng_calls.append((str(func), bind(func, args, kwargs).get("generator")))
        return RANDOM[func](e, func, args, kwargs)
    ts = _tensors(list(args) + list(kwargs.values()), [])
    if not any(e.is_symbolic(t) for t in ts):
        return func(*args, **kwargs)
    e.nsymops += 1
    nm = str(func)
    e.ops_seen[nm] = e.ops_seen.get(nm, 0) + 1
    if func in SPECIAL:
        return SPECIAL[func](e, func, args, kwargs)
    if func in PURE:
        b = bind(func, args, kwargs)
        try:
            arr = PURE[func](e, b)
        except ValueError as ex:
            if "broadcast" in str(ex):
                raise as_torch_error(f"{func}: operands cannot be broadcast together ({ex})") from None
            raise
        return e.out(func, args, kwargs, arr)
    base = _inplace_base(func)
    if base is not None:
        b = bind(base, args, kwargs)
        arr = PURE[base](e, b)
        dst = args[0]
        k = T.kind_of(dst.dtype)
        arr = np.broadcast_to(arr, tuple(dst.shape))
        e.write(dst, ufunc(lambda v: T.fix_kind(v, k), 1)(arr) if arr.size else arr)
        return dst
    obase = _out_base(func)
    if obase is not None:
        # out= variant: the functional result written into the caller's tensor (same storage: earlier views of it change too)
        kw = {k: v for k, v in kwargs.items() if k != "out"}
        dst = kwargs.get("out")
        if dst is None:
            raise Unsupported(f"positional out argument of {func}")
        arr = PURE[obase](e, bind(obase, args, kw))
        if tuple(dst.shape) != tuple(np.shape(arr)):
            with raw_():
                dst.resize_(tuple(np.shape(arr)))
        k = T.kind_of(dst.dtype)
        arr = np.broadcast_to(arr, tuple(dst.shape))
        e.write(dst, ufunc(lambda v: T.fix_kind(v, k), 1)(arr) if arr.size else arr)
        return dst
    if func in PASSTHROUGH or is_view_op(func):
        return func(*args, **kwargs)
    if torch._C._dispatch_has_kernel_for_dispatch_key(func.name(), "CompositeImplicitAutograd"):
        with _reenter(e):
            r = func.decompose(*args, **kwargs)
        if r is not NotImplemented:
            return r
    dec = _decomp_table().get(func)
    if dec is not None:
        with _reenter(e):
            return dec(*args, **kwargs)
    raise Unsupported(f"no symbolic semantics for {func}")


_DT = [None]


def _decomp_table():
    if _DT[0] is None:
        from torch._decomp import decomposition_table
        _DT[0] = decomposition_table
    return _DT[0]


class _reenter:
    def __init__(self, e):
        self.e = e

    def __enter__(self):
        from torch.utils._python_dispatch import TorchDispatchMode
        TorchDispatchMode.__enter__(self.e)

    def __exit__(self, *a):
        from torch.utils._python_dispatch import TorchDispatchMode
        TorchDispatchMode.__exit__(self.e, *a)


for _o in _maybe("zeros_like", "ones_like", "full_like", "empty_like", "new_zeros", "new_ones", "new_full",
                 "new_empty", "new_empty_strided", "_unsafe_view", "alias", "lift_fresh", "detach",
                 "empty_strided", "is_same_size", "_reshape_alias", "rand_like", "randn_like"):
    PASSTHROUGH.add(_o)


# ------------------------------------------------------------------------------ operands
_FWIDTH = {torch.float16: 16, torch.bfloat16: 16, torch.float32: 32, torch.float64: 64}


def operand(e, x, rt=None):
    """Element array of a tensor or Python scalar taking part in a computation of dtype rt."""
    if isinstance(x, torch.Tensor):
        a = e.read(x)
        if rt is not None and rt in _FWIDTH and x.dtype in _FWIDTH and _FWIDTH[x.dtype] > _FWIDTH[rt]:
            a = ufunc(lambda v: round_to_dtype(v, rt), 1)(a) if a.size else a
        return a
    v = T.num(x)
    if rt is not None and isinstance(x, float):
        v = round_to_dtype(v, rt)
    return obj(v, ())


def _rt(*xs):
    xs = [x for x in xs if x is not None]
    if len(xs) == 1:
        return xs[0].dtype if isinstance(xs[0], torch.Tensor) else None
    with raw():
        r = torch.result_type(xs[0], xs[1])
        for x in xs[2:]:
            r = torch.result_type(torch.empty((), dtype=r), x)
    return r


def ew2(f):
    def h(e, b):
        s, o = b["self"], b["other"]
        rt = _rt(s, o)
        a, c = operand(e, s, rt), operand(e, o, rt)
        return ufunc(f, 2)(a, c)
    return h


def ew1(f):
    def h(e, b):
        return ufunc(f, 1)(e.read(b["self"]))
    return h


def _alpha(f):
    def h(e, b):
        s, o = b["self"], b["other"]
        rt = _rt(s, o)
        a, c = operand(e, s, rt), operand(e, o, rt)
        al = b.get("alpha", 1)
        if al is not None and al != 1:
            c = ufunc(T.mul, 2)(c, T.num(al))
        return ufunc(f, 2)(a, c)
    return h


for _o in _maybe("add.Tensor", "add.Scalar"):
    PURE[_o] = _alpha(T.add)
for _o in _maybe("sub.Tensor", "sub.Scalar"):
    PURE[_o] = _alpha(T.sub)
for _o in _maybe("rsub.Scalar", "rsub.Tensor"):
    PURE[_o] = _alpha(lambda a, c: T.sub(c, a))
for _names, _f in [
    (("mul.Tensor", "mul.Scalar"), T.mul),
    (("div.Tensor", "div.Scalar", "true_divide.Tensor"), T.div),
    (("lt.Scalar", "lt.Tensor"), T.lt), (("le.Scalar", "le.Tensor"), T.le),
    (("gt.Scalar", "gt.Tensor"), T.gt), (("ge.Scalar", "ge.Tensor"), T.ge),
    (("eq.Scalar", "eq.Tensor"), T.eq), (("ne.Scalar", "ne.Tensor"), T.ne),
    (("remainder.Scalar", "remainder.Tensor"), T.remainder),
    (("floor_divide.default", "floor_divide.Scalar"), T.floordiv),
    (("maximum.default", "fmax.default"), T.maximum), (("minimum.default", "fmin.default"), T.minimum),
    (("logical_and.default",), T.land), (("logical_or.default",), T.lor), (("logical_xor.default",), T.lxor),
    (("pow.Tensor_Scalar", "pow.Tensor_Tensor"), T.pow_),
]:
    for _o in _maybe(*_names):
        PURE[_o] = ew2(_f)


@pure(*_maybe("remainder.Scalar_Tensor"))
def _rem_st(e, b):
    return ufunc(T.remainder, 2)(operand(e, b["self"]), operand(e, b["other"]))


@pure(*_maybe("pow.Scalar"))
def _pow_scalar(e, b):
    return ufunc(T.pow_, 2)(operand(e, b["self"]), operand(e, b["exponent"]))


for _o in _maybe("pow.Tensor_Scalar", "pow.Tensor_Tensor"):
    def _pw(e, b):
        s, o = b["self"], b["exponent"]
        rt = _rt(s, o)
        return ufunc(T.pow_, 2)(operand(e, s, rt), operand(e, o, rt))
    PURE[_o] = _pw


@pure(*_maybe("div.Tensor_mode", "div.Scalar_mode"))
def _div_mode(e, b):
    s, o = b["self"], b["other"]
    rt = _rt(s, o)
    a, c = operand(e, s, rt), operand(e, o, rt)
    mode = b.get("rounding_mode")
    if mode is None:
        return ufunc(T.div, 2)(a, c)
    if mode == "floor":
        return ufunc(T.floordiv, 2)(a, c)
    if mode == "trunc":
        if rt.is_floating_point:
            return ufunc(lambda x, y: T.trunc_(T.div(x, y)), 2)(a, c)
        return ufunc(lambda x, y: T.to_int(T.div(x, y)), 2)(a, c)
    raise Unsupported(f"rounding_mode {mode}")


def _bitwise(fb, name):
    def h(e, b):
        s, o = b["self"], b["other"]
        for x in (s, o):
            if isinstance(x, torch.Tensor) and x.dtype != torch.bool:
                raise Unsupported(f"{name} on non-bool tensors")
        return ufunc(fb, 2)(operand(e, s), operand(e, o))
    return h


for _names, _f in [(("bitwise_and.Tensor", "bitwise_and.Scalar"), T.land), (("bitwise_or.Tensor", "bitwise_or.Scalar"), T.lor),
                   (("bitwise_xor.Tensor", "bitwise_xor.Scalar"), T.lxor)]:
    for _o in _maybe(*_names):
        PURE[_o] = _bitwise(_f, _names[0])


@pure(*_maybe("bitwise_not.default"))
def _bitnot(e, b):
    if b["self"].dtype != torch.bool:
        raise Unsupported("bitwise_not on non-bool tensor")
    return ufunc(T.lnot, 1)(e.read(b["self"]))


for _names, _f in [
    (("abs.default",), T.abs_), (("neg.default",), T.neg), (("floor.default",), T.floor_), (("ceil.default",), T.ceil_),
    (("round.default",), T.round_), (("trunc.default",), T.trunc_), (("sign.default", "sgn.default"), T.sign_),
    (("exp.default",), T.exp_), (("log.default",), T.log_), (("sqrt.default",), T.sqrt_),
    (("logical_not.default",), T.lnot), (("isnan.default",), T.isnan), (("isinf.default",), T.isinf),
    (("lgamma.default",), T.lgamma_), (("erf.default",), T.erf_), (("sin.default",), T.sin_), (("cos.default",), T.cos_),
    (("tanh.default",), T.tanh_), (("log1p.default",), T.log1p_), (("expm1.default",), T.expm1_), (("sigmoid.default",), T.sigmoid_),
    (("reciprocal.default",), lambda a: T.div(1, a)), (("rsqrt.default",), lambda a: T.div(1, T.sqrt_(a))),
    (("relu.default",), lambda a: T.maximum(a, 0)),
    (("clone.default", "lift_fresh_copy.default", "contiguous.default", "positive.default"), lambda a: a),
]:
    for _o in _maybe(*_names):
        PURE[_o] = ew1(_f)


@pure(*_maybe("square.default"))
def _square(e, b):
    return ufunc(lambda a: T.mul(a, a), 1)(e.read(b["self"]))


@pure(*_maybe("isfinite.default"))
def _isfinite(e, b):
    return ufunc(T.isfinite, 1)(e.read(b["self"]))


@pure(*_maybe("nan_to_num.default"))
def _nan_to_num(e, b):
    dt = b["self"].dtype
    with raw():
        fi = torch.finfo(dt) if dt.is_floating_point else None
    nanv = T.num(0.0 if b.get("nan") is None else float(b["nan"]))
    pinf = T.num(float(fi.max) if b.get("posinf") is None else float(b["posinf"])) if fi else 0
    ninf = T.num(float(fi.min) if b.get("neginf") is None else float(b["neginf"])) if fi else 0

    def f(v):
        if not isinstance(v, T.XR):
            return v
        return T.ite(v.nan, nanv, T.ite(v.pinf, pinf, T.ite(v.ninf, ninf, v.val)))
    return ufunc(f, 1)(e.read(b["self"]))


@pure(*_maybe("heaviside.default"))
def _heaviside(e, b):
    a, v = e.read(b["self"]), e.read(b["values"])
    return ufunc(lambda x, y: T.ite(T.eq(x, 0), y, T.ite(T.lt(x, 0), 0, 1)), 2)(a, v)


@pure(*_maybe("xlogy.Tensor", "xlogy.Scalar_Other", "xlogy.Scalar_Self"))
def _xlogy(e, b):
    s, o = b["self"], b["other"]
    rt = _rt(s, o)
    return ufunc(lambda x, y: T.ite(T.eq(x, 0), 0, T.mul(x, T.log_(y))), 2)(operand(e, s, rt), operand(e, o, rt))


@pure(*_maybe("special_gammaincc.default", "igammac.default"))
def _gammaincc(e, b):
    return ufunc(T.gammaincc_, 2)(e.read(b["self"]), e.read(b["other"]))


@pure(*_maybe("where.self"))
def _where(e, b):
    rt = _rt(b["self"], b["other"])
    c, a, o = e.read(b["condition"]), operand(e, b["self"], rt), operand(e, b["other"], rt)
    k = T.kind_of(rt)
    a = ufunc(lambda v: T.fix_kind(v, k), 1)(a) if a.size else a
    o = ufunc(lambda v: T.fix_kind(v, k), 1)(o) if o.size else o
    return ufunc(T.ite, 3)(c, a, o)


@pure(*_maybe("clamp.default", "clamp.Tensor"))
def _clamp(e, b):
    s = b["self"]
    lo = None if b.get("min") is None else operand(e, b["min"], s.dtype)
    hi = None if b.get("max") is None else operand(e, b["max"], s.dtype)
    a = e.read(s)
    if lo is not None:
        a = ufunc(lambda v, l: T.clamp(v, l, None), 2)(a, lo)
    if hi is not None:
        a = ufunc(lambda v, h: T.clamp(v, None, h), 2)(a, hi)
    return a


@pure(*_maybe("clamp_min.default", "clamp_min.Tensor"))
def _clamp_min(e, b):
    return ufunc(lambda v, l: T.clamp(v, l, None), 2)(e.read(b["self"]), operand(e, b["min"], b["self"].dtype))


@pure(*_maybe("clamp_max.default", "clamp_max.Tensor"))
def _clamp_max(e, b):
    return ufunc(lambda v, h: T.clamp(v, None, h), 2)(e.read(b["self"]), operand(e, b["max"], b["self"].dtype))


@pure(*_maybe("_to_copy.default"))
def _to_copy(e, b):
    src = b["self"]
    dt = b.get("dtype") or src.dtype
    a = e.read(src)
    return ufunc(lambda v: T.cast(v, src.dtype, dt), 1)(a) if a.size else a


@special(*_maybe("copy_.default"))
def _copy_(e, func, args, kwargs):
    dst, src = args[0], args[1]
    a = e.read(src)
    vals = ufunc(lambda v: T.cast(v, src.dtype, dst.dtype), 1)(a) if a.size else a
    e.write(dst, vals)
    return dst


@special(*_maybe("fill_.Scalar", "fill_.Tensor"))
def _fill_(e, func, args, kwargs):
    dst, v = args[0], args[1]
    if isinstance(v, torch.Tensor):
        val = T.cast(e.read(v)[()], v.dtype, dst.dtype)
    else:
        val = T.fix_kind(round_to_dtype(T.num(v), dst.dtype), T.kind_of(dst.dtype))
    e.write(dst, obj(val, ()))
    return dst


@special(*_maybe("zero_.default"))
def _zero_(e, func, args, kwargs):
    dst = args[0]
    e.write(dst, obj(T.fix_kind(0, T.kind_of(dst.dtype)), ()))
    return dst


@pure(*_maybe("masked_fill.Scalar", "masked_fill.Tensor"))
def _masked_fill(e, b):
    s = b["self"]
    v = b["value"]
    val = operand(e, v, s.dtype)
    k = T.kind_of(s.dtype)
    val = ufunc(lambda x: T.fix_kind(x, k), 1)(val)
    return ufunc(lambda m, a, x: T.ite(m, x, a), 3)(e.read(b["mask"]), e.read(s), val)


# ------------------------------------------------------------------------------ shape ops
@pure(*_maybe("cat.default"))
def _cat(e, b):
    ts = b["tensors"]
    dim = b.get("dim", 0) or 0
    keep = [t for t in ts if not (t.dim() == 1 and t.numel() == 0)]
    if not keep:
        return np.empty((0,), dtype=object)
    with raw():
        rt = keep[0].dtype
        for t in keep[1:]:
            rt = torch.promote_types(rt, t.dtype)
    arrs = []
    for t in keep:
        a = e.read(t)
        if t.dtype != rt and a.size:
            a = ufunc(lambda v, sd=t.dtype: T.cast(v, sd, rt), 1)(a)
        arrs.append(a)
    return np.concatenate(arrs, axis=dim)


@pure(*_maybe("stack.default"))
def _stack(e, b):
    ts = b["tensors"]
    dim = b.get("dim", 0) or 0
    with raw():
        rt = ts[0].dtype
        for t in ts[1:]:
            rt = torch.promote_types(rt, t.dtype)
    arrs = []
    for t in ts:
        a = e.read(t)
        if t.dtype != rt and a.size:
            a = ufunc(lambda v, sd=t.dtype: T.cast(v, sd, rt), 1)(a)
        arrs.append(a)
    if dim < 0:
        dim += arrs[0].ndim + 1
    return np.stack(arrs, axis=dim)


@pure(*_maybe("repeat.default"))
def _repeat(e, b):
    a = e.read(b["self"])
    reps = list(b["repeats"])
    a = a.reshape((1,) * (len(reps) - a.ndim) + a.shape)
    return np.tile(a, reps)


@pure(*_maybe("roll.default"))
def _roll(e, b):
    a = e.read(b["self"])
    shifts, dims = list(b["shifts"]), list(b.get("dims") or [])
    if not dims:
        return np.roll(a.reshape(-1), shifts[0]).reshape(a.shape)
    return np.roll(a, shifts, axis=tuple(dims))


@pure(*_maybe("flip.default"))
def _flip(e, b):
    return np.flip(e.read(b["self"]), axis=tuple(b["dims"]))


@pure(*_maybe("constant_pad_nd.default"))
def _pad(e, b):
    s = b["self"]
    a = e.read(s)
    pads = list(b["pad"])
    val = T.fix_kind(round_to_dtype(T.num(b.get("value", 0) or 0), s.dtype), T.kind_of(s.dtype))
    out = a
    for i in range(len(pads) // 2):
        ax = a.ndim - 1 - i
        lo, hi = pads[2 * i], pads[2 * i + 1]
        if lo < 0:
            out = np.take(out, range(-lo, out.shape[ax]), axis=ax)
            lo = 0
        if hi < 0:
            out = np.take(out, range(0, out.shape[ax] + hi), axis=ax)
            hi = 0
        if lo or hi:
            shp_lo, shp_hi = list(out.shape), list(out.shape)
            shp_lo[ax], shp_hi[ax] = lo, hi
            fl, fh = np.empty(shp_lo, dtype=object), np.empty(shp_hi, dtype=object)
            fl[...] = val
            fh[...] = val
            out = np.concatenate([fl, out, fh], axis=ax)
    return out


@pure(*_maybe("tril.default", "triu.default"))
def _tri(e, b):
    raise Unsupported("tril/triu")


@pure(*_maybe("diag_embed.default"))
def _diag_embed(e, b):
    raise Unsupported("diag_embed")


# ------------------------------------------------------------------------------ reductions
def _norm_dims(dims, nd):
    if dims is None:
        return list(range(nd))
    if isinstance(dims, int):
        dims = [dims]
    dims = list(dims)
    if not dims:
        return list(range(nd))
    return sorted(set(d % nd for d in dims)) if nd else []


def reduce_arr(a, dims, keep, red):
    """Apply red(list_of_elements) over the given dims of an object array."""
    if a.ndim == 0:
        return obj(red([a[()]]), ())
    dims = _norm_dims(dims, a.ndim)
    moved = np.moveaxis(a, dims, list(range(len(dims))))
    rest = moved.shape[len(dims):]
    n = int(np.prod(moved.shape[:len(dims)], dtype=np.int64)) if dims else 1
    flat = moved.reshape((n,) + rest)
    r = np.empty(rest, dtype=object)
    for ix in (np.ndindex(*rest) if rest else [()]):
        r[ix] = red([flat[(j,) + ix] for j in range(n)])
    if keep:
        for d in dims:
            r = np.expand_dims(r, d)
    return r


def ssum(vals, zero=0):
    acc = zero
    for v in vals:
        acc = T.add(acc, v)
    return acc


def sprod(vals):
    acc = 1
    for v in vals:
        acc = T.mul(acc, v)
    return acc


def _amax(vals):
    if not vals:
        raise Unsupported("max of an empty slice")
    acc = vals[0]
    for v in vals[1:]:
        acc = T.maximum(acc, v)
    return acc


def _amin(vals):
    if not vals:
        raise Unsupported("min of an empty slice")
    acc = vals[0]
    for v in vals[1:]:
        acc = T.minimum(acc, v)
    return acc


def _nansum(vals):
    acc = 0
    for v in vals:
        acc = T.add(acc, T.ite(T.isnan(v), 0, v) if isinstance(v, T.XR) else v)
    return acc


def _red(red, dimkey="dim", keepkey="keepdim", to_float=False, int_to_long=False):
    def h(e, b):
        s = b["self"]
        a = e.read(s)
        dt = b.get("dtype")
        if dt is not None and a.size:
            a = ufunc(lambda v: T.cast(v, s.dtype, dt), 1)(a)
        elif s.dtype == torch.bool and a.size:
            a = ufunc(lambda v: T.cast(v, s.dtype, torch.int64), 1)(a)
        return reduce_arr(a, b.get(dimkey), bool(b.get(keepkey)), red)
    return h


for _o in _maybe("sum.dim_IntList", "sum.default"):
    PURE[_o] = _red(ssum)
for _o in _maybe("nansum.default"):
    PURE[_o] = _red(_nansum)
for _o in _maybe("prod.default", "prod.dim_int"):
    PURE[_o] = _red(sprod)


@pure(*_maybe("mean.dim", "mean.default"))
def _mean(e, b):
    a = e.read(b["self"])
    return reduce_arr(a, b.get("dim"), bool(b.get("keepdim")), lambda vs: T.div(ssum(vs), len(vs)))


@pure(*_maybe("amax.default"))
def _amax_h(e, b):
    return reduce_arr(e.read(b["self"]), b.get("dim"), bool(b.get("keepdim")), _amax)


@pure(*_maybe("amin.default"))
def _amin_h(e, b):
    return reduce_arr(e.read(b["self"]), b.get("dim"), bool(b.get("keepdim")), _amin)


@pure(*_maybe("max.default"))
def _max_all(e, b):
    return reduce_arr(e.read(b["self"]), None, False, _amax)


@pure(*_maybe("min.default"))
def _min_all(e, b):
    return reduce_arr(e.read(b["self"]), None, False, _amin)


@pure(*_maybe("all.default", "all.dim", "all.dims"))
def _all(e, b):
    def red(vs):
        acc = True
        for v in vs:
            acc = T.land(acc, v)
        return acc
    return reduce_arr(e.read(b["self"]), b.get("dim"), bool(b.get("keepdim")), red)


@pure(*_maybe("any.default", "any.dim", "any.dims"))
def _any(e, b):
    def red(vs):
        acc = False
        for v in vs:
            acc = T.lor(acc, v)
        return acc
    return reduce_arr(e.read(b["self"]), b.get("dim"), bool(b.get("keepdim")), red)


def _argext(better):
    def red(vs):
        best, bi = vs[0], 0
        for j, v in enumerate(vs[1:], 1):
            c = better(v, best)
            best = T.ite(c, v, best)
            bi = T.ite(c, j, bi)
        return bi
    return red


@pure(*_maybe("argmax.default"))
def _argmax(e, b):
    a = e.read(b["self"])
    if b.get("dim") is None:
        return reduce_arr(a.reshape(-1), [0], False, _argext(T.gt))
    return reduce_arr(a, [b["dim"]], bool(b.get("keepdim")), _argext(T.gt))


@pure(*_maybe("argmin.default"))
def _argmin(e, b):
    a = e.read(b["self"])
    if b.get("dim") is None:
        return reduce_arr(a.reshape(-1), [0], False, _argext(T.lt))
    return reduce_arr(a, [b["dim"]], bool(b.get("keepdim")), _argext(T.lt))


@special(*_maybe("max.dim", "min.dim"))
def _maxmin_dim(e, func, args, kwargs):
    b = bind(func, args, kwargs)
    a = e.read(b["self"])
    ismax = "max" in str(func)
    vals = reduce_arr(a, [b["dim"]], bool(b.get("keepdim")), _amax if ismax else _amin)
    idx = reduce_arr(a, [b["dim"]], bool(b.get("keepdim")), _argext(T.gt if ismax else T.lt))
    return e.lift(vals, b["self"].dtype), e.lift(idx, torch.int64)


@pure(*_maybe("cumsum.default"))
def _cumsum(e, b):
    s = b["self"]
    a = e.read(s)
    if s.dtype == torch.bool and a.size:
        a = ufunc(lambda v: T.cast(v, s.dtype, torch.int64), 1)(a)
    if a.ndim == 0:
        return a
    dim = b["dim"] % a.ndim
    out = a.copy()
    for j in range(1, a.shape[dim]):
        sl = [slice(None)] * a.ndim
        sp = list(sl)
        sl[dim], sp[dim] = j, j - 1
        out[tuple(sl)] = ufunc(T.add, 2)(out[tuple(sp)], a[tuple(sl)])
    return out


@pure(*_maybe("linalg_vector_norm.default"))
def _vnorm(e, b):
    a = e.read(b["self"])
    p = b.get("ord", 2)
    p = 2 if p is None else p
    dims, keep = b.get("dim"), bool(b.get("keepdim"))
    if p == float("inf"):
        return reduce_arr(ufunc(T.abs_, 1)(a), dims, keep, _amax)
    if p == float("-inf"):
        return reduce_arr(ufunc(T.abs_, 1)(a), dims, keep, _amin)
    if p == 1:
        return reduce_arr(ufunc(T.abs_, 1)(a), dims, keep, ssum)
    if p == 2:
        return reduce_arr(a, dims, keep, lambda vs: T.sqrt_(ssum([T.mul(v, v) for v in vs])))
    if p == 0:
        return reduce_arr(a, dims, keep, lambda vs: ssum([T.ite(T.ne(v, 0), 1, 0) for v in vs]))
    pp = T.num(float(p))
    return reduce_arr(a, dims, keep, lambda vs: T.pow_(ssum([T.pow_(T.abs_(v), pp) for v in vs]), T.div(1, pp)))


# ------------------------------------------------------------------------------ linear algebra
def _mm2(a, b):
    n, k = a.shape
    k2, m = b.shape
    out = np.empty((n, m), dtype=object)
    for i in range(n):
        for j in range(m):
            out[i, j] = ssum([T.mul(a[i, l], b[l, j]) for l in range(k)])
    return out


@pure(*_maybe("mm.default"))
def _mm(e, b):
    return _mm2(e.read(b["self"]), e.read(b["mat2"]))


@pure(*_maybe("bmm.default"))
def _bmm(e, b):
    a, c = e.read(b["self"]), e.read(b["mat2"])
    if a.shape[0] == 0:
        return np.empty((0, a.shape[1], c.shape[2]), dtype=object)
    return np.stack([_mm2(a[i], c[i]) for i in range(a.shape[0])], 0)


@pure(*_maybe("addmm.default"))
def _addmm(e, b):
    r = _mm2(e.read(b["mat1"]), e.read(b["mat2"]))
    be, al = b.get("beta", 1), b.get("alpha", 1)
    if al != 1:
        r = ufunc(T.mul, 2)(r, T.num(al))
    s = e.read(b["self"])
    if be != 1:
        s = ufunc(T.mul, 2)(s, T.num(be))
    return ufunc(T.add, 2)(r, s)


@pure(*_maybe("mv.default"))
def _mv(e, b):
    a, v = e.read(b["self"]), e.read(b["vec"])
    return _mm2(a, v.reshape(-1, 1)).reshape(-1)


@pure(*_maybe("dot.default"))
def _dot(e, b):
    a, v = e.read(b["self"]), e.read(b["tensor"])
    return obj(ssum([T.mul(x, y) for x, y in zip(a, v)]), ())


@pure(*_maybe("im2col.default"))
def _im2col(e, b):
    a = e.read(b["self"])
    kh, kw = b["kernel_size"]
    dh, dw = b["dilation"]
    ph, pw = b["padding"]
    sh, sw = b["stride"]
    batched = a.ndim == 4
    if not batched:
        a = a[None]
    B, C, H, W = a.shape
    Ho = (H + 2 * ph - dh * (kh - 1) - 1) // sh + 1
    Wo = (W + 2 * pw - dw * (kw - 1) - 1) // sw + 1
    out = np.empty((B, C * kh * kw, Ho * Wo), dtype=object)
    zero = Fraction(0)
    for bi in range(B):
        for c in range(C):
            for i in range(kh):
                for j in range(kw):
                    row = (c * kh + i) * kw + j
                    for oh in range(Ho):
                        for ow in range(Wo):
                            y, x = oh * sh - ph + i * dh, ow * sw - pw + j * dw
                            out[bi, row, oh * Wo + ow] = a[bi, c, y, x] if 0 <= y < H and 0 <= x < W else zero
    return out if batched else out[0]


@pure(*_maybe("col2im.default"))
def _col2im(e, b):
    a = e.read(b["self"])
    H, W = b["output_size"]
    kh, kw = b["kernel_size"]
    dh, dw = b["dilation"]
    ph, pw = b["padding"]
    sh, sw = b["stride"]
    batched = a.ndim == 3
    if not batched:
        a = a[None]
    B, CK, L = a.shape
    C = CK // (kh * kw)
    Ho = (H + 2 * ph - dh * (kh - 1) - 1) // sh + 1
    Wo = (W + 2 * pw - dw * (kw - 1) - 1) // sw + 1
    out = np.empty((B, C, H, W), dtype=object)
    out[...] = Fraction(0)
    for bi in range(B):
        for c in range(C):
            for i in range(kh):
                for j in range(kw):
                    row = (c * kh + i) * kw + j
                    for oh in range(Ho):
                        for ow in range(Wo):
                            y, x = oh * sh - ph + i * dh, ow * sw - pw + j * dw
                            if 0 <= y < H and 0 <= x < W:
                                out[bi, c, y, x] = T.add(out[bi, c, y, x], a[bi, row, oh * Wo + ow])
    return out if batched else out[0]


@pure(*_maybe("convolution.default"))
def _conv(e, b):
    x, w, bias = e.read(b["input"]), e.read(b["weight"]), b.get("bias")
    if b.get("transposed") or b.get("groups", 1) != 1 or x.ndim != 4:
        raise Unsupported("only plain 2-D convolution is modelled")
    sh, sw = b["stride"]
    ph, pw = b["padding"]
    dh, dw = b["dilation"]
    B, C, H, W = x.shape
    F_, C2, kh, kw = w.shape
    Ho = (H + 2 * ph - dh * (kh - 1) - 1) // sh + 1
    Wo = (W + 2 * pw - dw * (kw - 1) - 1) // sw + 1
    bb = e.read(bias) if bias is not None else None
    out = np.empty((B, F_, Ho, Wo), dtype=object)
    for bi in range(B):
        for f in range(F_):
            for oh in range(Ho):
                for ow in range(Wo):
                    terms = []
                    for c in range(C):
                        for i in range(kh):
                            for j in range(kw):
                                y, xx = oh * sh - ph + i * dh, ow * sw - pw + j * dw
                                if 0 <= y < H and 0 <= xx < W:
                                    terms.append(T.mul(w[f, c, i, j], x[bi, c, y, xx]))
                    v = ssum(terms, Fraction(0))
                    if bb is not None:
                        v = T.add(v, bb[f])
                    out[bi, f, oh, ow] = v
    return out


# ------------------------------------------------------------------------------ indexing
def sel(cands, idx):
    """cands[idx] for a concrete or symbolic integer idx (caller guarantees the range)."""
    if not T.is_z(idx):
        return cands[int(idx)]
    res = cands[-1]
    for j in range(len(cands) - 2, -1, -1):
        res = T.ite(idx == j, cands[j], res)
    return res


def require_range(e, i, n, what):
    """Fork so that on this path the symbolic index i is within [-n, n); raise like torch otherwise."""
    if not T.is_z(i):
        if not (-n <= int(i) < n):
            raise IndexError(f"{what}: index {int(i)} is out of bounds for dimension with size {n}")
        return int(i) % n if n else 0
    ok = z3and(i >= -n, i < n)
    if not e.branch(ok):
        raise RuntimeError(f"{what}: index out of bounds")
    return T.ite(i < 0, T.add(i, n), i) if _may_be_negative(e, i) else i


def z3and(a, b):
    import z3
    return z3.And(a, b)


def _may_be_negative(e, i):
    r, _ = e.check(i < 0)
    return r != "unsat"


@pure(*_maybe("gather.default"))
def _gather(e, b):
    src, dim, index = b["self"], b["dim"], b["index"]
    a, ix = e.read(src), e.read(index)
    if a.ndim == 0:
        return a.reshape(ix.shape)
    dim = dim % a.ndim
    n = a.shape[dim]
    res = np.empty(ix.shape, dtype=object)
    for pos in np.ndindex(*ix.shape):
        i = require_range(e, ix[pos], n, "gather")
        cands = []
        for j in range(n):
            p = list(pos)
            p[dim] = j
            cands.append(a[tuple(p)])
        res[pos] = sel(cands, i)
    return res


def _scatter_core(e, b, combine):
    dst, dim, index = b["self"], b["dim"], b["index"]
    a, ix = e.read(dst).copy(), e.read(index)
    if "src" in b and b["src"] is not None and isinstance(b["src"], torch.Tensor):
        s = e.read(b["src"])
        srcd = b["src"].dtype
        if srcd != dst.dtype:
            raise Unsupported("scatter with mismatching dtypes")
    else:
        s = np.broadcast_to(obj(T.fix_kind(round_to_dtype(T.num(b["value"]), dst.dtype), T.kind_of(dst.dtype)), ()), ix.shape)
    dim = dim % a.ndim
    n = a.shape[dim]
    for pos in np.ndindex(*ix.shape):
        i = require_range(e, ix[pos], n, "scatter")
        for j in range(n):
            p = list(pos)
            p[dim] = j
            p = tuple(p)
            if not T.is_z(i):
                if int(i) == j:
                    a[p] = combine(a[p], s[pos])
            else:
                a[p] = T.ite(i == j, combine(a[p], s[pos]), a[p])
    return a


for _o in _maybe("scatter.src", "scatter.value"):
    PURE[_o] = lambda e, b: _scatter_core(e, b, lambda old, new: new)
for _o in _maybe("scatter_add.default"):
    PURE[_o] = lambda e, b: _scatter_core(e, b, lambda old, new: T.add(old, new))


def _index_arrays(e, a, indices):
    """Normalise advanced indices to broadcast integer element arrays; returns (arrays, dims)."""
    idx = list(indices) + [None] * (a.ndim - len(indices))
    # expand boolean masks into integer indices (forking on symbolic masks)
    out = []
    d = 0
    for ix in idx:
        if ix is None:
            out.append(None)
            d += 1
            continue
        if ix.dtype == torch.bool:
            m = e.read(ix)
            conc = np.empty(m.shape, dtype=bool)
            for pos in np.ndindex(*m.shape):
                conc[pos] = e.branch(m[pos])
            nz = np.nonzero(conc)
            for k in range(m.ndim):
                out.append(obj(np.array([int(v) for v in nz[k]], dtype=object), (len(nz[k]),)) if len(nz[k]) else np.empty((0,), dtype=object))
            d += m.ndim
        else:
            out.append(e.read(ix))
            d += 1
    return out[:a.ndim] if len(out) >= a.ndim else out + [None] * (a.ndim - len(out))


def _adv_positions(a_shape, idx):
    adv = [i for i, x in enumerate(idx) if x is not None]
    bshape = np.broadcast_shapes(*[idx[i].shape for i in adv]) if adv else ()
    contiguous = adv == list(range(adv[0], adv[-1] + 1)) if adv else True
    rest = [i for i in range(len(a_shape)) if i not in adv]
    return adv, bshape, contiguous, rest


@pure(*_maybe("index.Tensor"))
def _index(e, b):
    s = b["self"]
    a = e.read(s)
    idx = _index_arrays(e, a, b["indices"])
    adv, bshape, contiguous, rest = _adv_positions(a.shape, idx)
    if not adv:
        return a
    bidx = [np.broadcast_to(idx[i], bshape) for i in adv]
    rest_shape = tuple(a.shape[i] for i in rest)
    if contiguous:
        pre = [i for i in rest if i < adv[0]]
        post = [i for i in rest if i > adv[-1]]
        out_shape = tuple(a.shape[i] for i in pre) + tuple(bshape) + tuple(a.shape[i] for i in post)
    else:
        pre, post = [], rest
        out_shape = tuple(bshape) + rest_shape
    out = np.empty(out_shape, dtype=object)
    npre = len(pre)
    for bpos in (np.ndindex(*bshape) if bshape else [()]):
        ivals = [require_range(e, bi[bpos], a.shape[d], "index") for bi, d in zip(bidx, adv)]
        for rpos in (np.ndindex(*rest_shape) if rest_shape else [()]):
            rp = dict(zip(rest, rpos))
            # enumerate candidates over symbolic advanced indices
            def pick(k, fixed):
                if k == len(adv):
                    full = [fixed[d] if d in fixed else rp[d] for d in range(a.ndim)]
                    return a[tuple(full)]
                d = adv[k]
                iv = ivals[k]
                if not T.is_z(iv):
                    return pick(k + 1, {**fixed, d: int(iv)})
                cands = [pick(k + 1, {**fixed, d: j}) for j in range(a.shape[d])]
                return sel(cands, iv)
            v = pick(0, {})
            if contiguous:
                opos = tuple(rp[i] for i in pre) + tuple(bpos) + tuple(rp[i] for i in post)
            else:
                opos = tuple(bpos) + tuple(rpos)
            out[opos] = v
    return out


def _index_put_core(e, b):
    s = b["self"]
    a = e.read(s).copy()
    idx = _index_arrays(e, a, b["indices"])
    vals = b["values"]
    accumulate = bool(b.get("accumulate"))
    adv, bshape, contiguous, rest = _adv_positions(a.shape, idx)
    if not adv:
        raise Unsupported("index_put without advanced indices")
    bidx = [np.broadcast_to(idx[i], bshape) for i in adv]
    rest_shape = tuple(a.shape[i] for i in rest)
    if contiguous:
        pre = [i for i in rest if i < adv[0]]
        post = [i for i in rest if i > adv[-1]]
        tgt_shape = tuple(a.shape[i] for i in pre) + tuple(bshape) + tuple(a.shape[i] for i in post)
    else:
        pre, post = [], rest
        tgt_shape = tuple(bshape) + rest_shape
    v = e.read(vals)
    if vals.dtype != s.dtype and v.size:
        v = ufunc(lambda x: T.cast(x, vals.dtype, s.dtype), 1)(v)
    try:
        v = np.broadcast_to(v, tgt_shape)
    except ValueError:
        raise as_torch_error(f"shape mismatch: value tensor of shape {list(v.shape)} cannot be broadcast to indexing result of shape {list(tgt_shape)}") from None
    for bpos in (np.ndindex(*bshape) if bshape else [()]):
        ivals = [require_range(e, bi[bpos], a.shape[d], "index_put") for bi, d in zip(bidx, adv)]
        for rpos in (np.ndindex(*rest_shape) if rest_shape else [()]):
            rp = dict(zip(rest, rpos))
            if contiguous:
                opos = tuple(rp[i] for i in pre) + tuple(bpos) + tuple(rp[i] for i in post)
            else:
                opos = tuple(bpos) + tuple(rpos)
            newv = v[opos]
            sym_dims = [k for k in range(len(adv)) if T.is_z(ivals[k])]
            if not sym_dims:
                full = [0] * a.ndim
                for k, d in enumerate(adv):
                    full[d] = int(ivals[k])
                for d in rest:
                    full[d] = rp[d]
                full = tuple(full)
                a[full] = T.add(a[full], newv) if accumulate else newv
            else:
                ranges = [range(a.shape[adv[k]]) if k in sym_dims else [int(ivals[k])] for k in range(len(adv))]
                for combo in itertools.product(*ranges):
                    cond = True
                    for k in sym_dims:
                        cond = T.band(cond, ivals[k] == combo[k])
                    full = [0] * a.ndim
                    for k, d in enumerate(adv):
                        full[d] = combo[k]
                    for d in rest:
                        full[d] = rp[d]
                    full = tuple(full)
                    a[full] = T.ite(cond, T.add(a[full], newv) if accumulate else newv, a[full])
    return a


for _o in _maybe("index_put.default"):
    PURE[_o] = _index_put_core


@special(*_maybe("index_put_.default", "_index_put_impl_.default"))
def _index_put_(e, func, args, kwargs):
    b = bind(func, args, kwargs)
    e.write(args[0], _index_put_core(e, b))
    return args[0]


@pure(*_maybe("index_select.default"))
def _index_select(e, b):
    a, ix = e.read(b["self"]), e.read(b["index"])
    dim = b["dim"] % max(a.ndim, 1)
    outs = []
    for i in ix.reshape(-1):
        iv = require_range(e, i, a.shape[dim], "index_select")
        cands = [np.take(a, j, axis=dim) for j in range(a.shape[dim])]
        if not T.is_z(iv):
            outs.append(cands[int(iv)])
        else:
            r = np.empty(cands[0].shape, dtype=object)
            for pos in (np.ndindex(*r.shape) if r.shape else [()]):
                r[pos] = sel([c[pos] for c in cands], iv)
            outs.append(r)
    return np.stack(outs, axis=dim) if outs else np.take(a, [], axis=dim)


@special(*_maybe("nonzero.default"))
def _nonzero(e, func, args, kwargs):
    a = e.read(args[0])
    conc = np.empty(a.shape, dtype=bool)
    for pos in (np.ndindex(*a.shape) if a.shape else [()]):
        conc[pos] = e.branch(T.tob(a[pos]))
    with raw():
        return torch.from_numpy(np.argwhere(conc).astype(np.int64)).reshape(-1, a.ndim).clone()


@special(*_maybe("masked_select.default"))
def _masked_select(e, func, args, kwargs):
    a, m = np.broadcast_arrays(e.read(args[0]), e.read(args[1]))
    keep = []
    for pos in (np.ndindex(*a.shape) if a.shape else [()]):
        if e.branch(T.tob(m[pos])):
            keep.append(a[pos])
    return e.lift(obj(np.array(keep, dtype=object), (len(keep),)) if keep else np.empty((0,), dtype=object), args[0].dtype)


@special(*_maybe("_local_scalar_dense.default"))
def _lsd(e, func, args, kwargs):
    t = args[0]
    v = e.read(t)[()]
    if isinstance(v, T.XR):
        if not any(T.is_z(f) for f in (v.nan, v.pinf, v.ninf)) and not T.is_sym(v.val):
            if v.nan:
                return float("nan")
            if v.pinf:
                return float("inf")
            if v.ninf:
                return float("-inf")
        raise Unsupported(".item() of a possibly non-finite symbolic value")
    if t.dtype == torch.bool:
        return e.branch(v)
    if not T.is_sym(v):
        return float(v) if t.dtype.is_floating_point else int(v)
    if not t.dtype.is_floating_point:
        return e.concretize_int(v)
    from .scalar import SymNum
    if e.opts.get("symnum_item"):
        return SymNum(e, v)
    raise Unsupported(".item() of a symbolic float")


@special(*_maybe("equal.default"))
def _equal(e, func, args, kwargs):
    a, b = args[0], args[1]
    if tuple(a.shape) != tuple(b.shape):
        return False
    return e.branch(e.all_same(a, b))


@special(*_maybe("bincount.default"))
def _bincount(e, func, args, kwargs):
    b = bind(func, args, kwargs)
    if b.get("weights") is not None:
        raise Unsupported("bincount with weights")
    a = e.read(b["self"]).reshape(-1)
    n = int(b.get("minlength") or 0)
    if n <= 0:
        raise Unsupported("bincount without minlength on symbolic input (data-dependent length)")
    for v in a:
        if T.is_z(v) and not e.branch(z3and(v >= 0, v < n)):
            raise Unsupported("bincount value outside [0, minlength)")
    out = np.empty((n,), dtype=object)
    for k in range(n):
        out[k] = ssum([T.ite(T.eq(v, k), 1, 0) for v in a], 0)
    return e.lift(out, torch.int64)


@special(*_maybe("unique_consecutive.default", "_unique2.default", "unique_dim.default", "sort.default", "sort.stable",
                 "argsort.default", "topk.default", "histc.default"))
def _datadep(e, func, args, kwargs):
    raise Unsupported(f"data-dependent op {func} on symbolic input")


# ------------------------------------------------------------------------------ random ops
def _fresh(e, shape, dtype, tag, lo=None, hi=None, strict_lo=False, strict_hi=False, integer=False):
    import z3
    n = e.opts.setdefault("_rng_counter", itertools.count())
    k = next(n)
    arr = np.empty(tuple(shape), dtype=object)
    kind = T.kind_of(dtype)
    for ix in (np.ndindex(*shape) if shape else [()]):
        nm = f"rng{k}_{tag}{list(ix)}"
        if kind == "b":
            arr[ix] = e._var(nm, "b")
            continue
        v = e._var(nm, "i" if (kind == "i" or integer) else "f")
        if lo is not None:
            e._add(v > lo if strict_lo else v >= lo)
        if hi is not None:
            e._add(v < hi if strict_hi else v <= hi)
        arr[ix] = v if kind != "f" or not integer else z3.ToReal(v)
    e.inputs.append((f"rng{k}_{tag}", tuple(shape), str(dtype).replace("torch.", ""), False))
    return arr


def _factory_shape_dtype(func, args, kwargs, e):
    mo = e.meta_out(func, args, kwargs)
    return tuple(mo.shape), mo.dtype


@rnd(*_maybe("rand.default", "rand.generator", "rand_like.default"))
def _rand(e, func, args, kwargs):
    shape, dt = _factory_shape_dtype(func, args, kwargs, e)
    return e.lift(_fresh(e, shape, dt, "u", 0, 1, strict_hi=True), dt)


@rnd(*_maybe("randn.default", "randn.generator", "randn_like.default"))
def _randn(e, func, args, kwargs):
    shape, dt = _factory_shape_dtype(func, args, kwargs, e)
    return e.lift(_fresh(e, shape, dt, "n"), dt)


@rnd(*_maybe("uniform_.default"))
def _uniform_(e, func, args, kwargs):
    b = bind(func, args, kwargs)
    t = args[0]
    lo, hi = Fraction(b.get("from", 0.0)), Fraction(b.get("to", 1.0))
    e.write(t, _fresh(e, tuple(t.shape), t.dtype, "u", lo, hi, strict_hi=True))
    return t


@rnd(*_maybe("normal_.default"))
def _normal_(e, func, args, kwargs):
    t = args[0]
    e.write(t, _fresh(e, tuple(t.shape), t.dtype, "n"))
    return t


@rnd(*_maybe("exponential_.default"))
def _exponential_(e, func, args, kwargs):
    t = args[0]
    e.write(t, _fresh(e, tuple(t.shape), t.dtype, "e", 0, None, strict_lo=True))
    return t


@rnd(*_maybe("bernoulli.default", "bernoulli.p", "bernoulli_.float", "bernoulli_.Tensor"))
def _bernoulli(e, func, args, kwargs):
    b = bind(func, args, kwargs)
    t = args[0]
    name = str(func)
    if "bernoulli.default" in name:
        p = e.read(t)
    else:
        pp = b.get("p")
        p = np.broadcast_to(e.read(pp) if isinstance(pp, torch.Tensor) else obj(T.num(pp), ()), tuple(t.shape))
    draws = _fresh(e, tuple(t.shape), torch.bool, "b")
    for ix in (np.ndindex(*t.shape) if t.shape else [()]):
        pv = p[ix] if p.shape else p[()]
        d = draws[ix]
        # contract: p = 0 => no event, p = 1 => event
        e._add(z3imp(T.tob(T.le(pv, 0)), z3not(d)))
        e._add(z3imp(T.tob(T.ge(pv, 1)), d))
    k = T.kind_of(t.dtype)
    vals = ufunc(lambda v: T.cast_kind(v, "b", k), 1)(draws) if draws.size else draws
    if "bernoulli_" in name:
        e.write(t, vals)
        return t
    return e.lift(vals, t.dtype)


def z3imp(a, b):
    import z3
    a = a if T.is_z(a) else z3.BoolVal(bool(a))
    b = b if T.is_z(b) else z3.BoolVal(bool(b))
    return z3.Implies(a, b)


def z3not(a):
    import z3
    return z3.Not(a) if T.is_z(a) else z3.BoolVal(not a)


@rnd(*_maybe("poisson.default"))
def _poisson(e, func, args, kwargs):
    t = args[0]
    lam = e.read(t)
    draws = _fresh(e, tuple(t.shape), t.dtype, "p", 0, None, integer=True)
    for ix in (np.ndindex(*t.shape) if t.shape else [()]):
        e._add(z3imp(T.tob(T.le(lam[ix] if lam.shape else lam[()], 0)), T.tob(T.eq(draws[ix], 0))))
    return e.lift(draws, t.dtype)


@rnd(*_maybe("randint.default", "randint.low", "randint.generator", "randint.low_generator", "randint_like.default", "randint_like.low_dtype"))
def _randint(e, func, args, kwargs):
    b = bind(func, args, kwargs)
    shape, dt = _factory_shape_dtype(func, args, kwargs, e)
    lo = b.get("low") or 0
    hi = b["high"]
    return e.lift(_fresh(e, shape, dt, "i", lo, hi - 1, integer=True), dt)


@rnd(*_maybe("randperm.default", "randperm.generator", "multinomial.default", "normal.Tensor_float", "normal.Tensor_Tensor", "normal.float_Tensor"))
def _rand_unsupported(e, func, args, kwargs):
    raise Unsupported(f"random op {func} has no stub")
