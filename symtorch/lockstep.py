"""Lockstep validation of the operator semantics against the real ATen kernels.

A pytest plugin (``-p symtorch.lockstep``): every test of the repository runs under a
dispatch mode which, for each ATen call that has a symbolic handler, executes BOTH the real
kernel and the handler (on exact constant elements) and compares the results element-wise
(exact for bool/int, 1e-4 relative for floats, NaN == NaN, inf == inf).  The summary is
written to $LOCKSTEP_OUT (JSON): per overload the number of calls compared and mismatches.
"""
from __future__ import annotations
import json
import math
import os
from fractions import Fraction

import numpy as np
import pytest
import torch
from torch.utils._python_dispatch import TorchDispatchMode

from . import terms as T
from . import ops
from .engine import Engine, tensor_to_obj, raw

STATS = {}
MISMATCH = []
WRAPS = [0]
MAX_NUMEL = int(os.environ.get("LOCKSTEP_MAX_NUMEL", "256"))


def _tensors(x, acc):
    if isinstance(x, torch.Tensor):
        acc.append(x)
    elif isinstance(x, (list, tuple)):
        for i in x:
            _tensors(i, acc)
    return acc


def _conc(v):
    if isinstance(v, T.XR):
        if T.is_z(v.nan) or T.is_z(v.pinf) or T.is_z(v.ninf):
            return None
        return float("nan") if v.nan else (float("inf") if v.pinf else (float("-inf") if v.ninf else float(v.val)))
    if T.is_z(v):
        import z3
        s = z3.simplify(v)
        n = T._numeral(s)
        if n is None:
            if z3.is_true(s):
                return True
            if z3.is_false(s):
                return False
            return None
        return n
    if isinstance(v, T.Ind):
        return bool(v.p)
    return v


def _same(a, b, isfloat):
    if a is None:
        return True     # handler kept an uninterpreted term (special function of a constant): not comparable here
    if isinstance(b, float) and math.isnan(b):
        return isinstance(a, float) and math.isnan(a)
    if isinstance(b, float) and math.isinf(b):
        return isinstance(a, float) and a == b
    if isinstance(a, float) and (math.isnan(a) or math.isinf(a)):
        return False
    if not isfloat:
        if not isinstance(b, bool) and not -2**63 <= int(a) < 2**63:
            WRAPS[0] += 1       # the handler computes in mathematical integers; int64 wrap-around is outside the claim
            return True
        return (bool(a) == bool(b)) if isinstance(b, bool) else int(a) == int(b)
    fa, fb = float(a), float(b)
    return abs(fa - fb) <= 1e-5 + 1e-4 * max(abs(fa), abs(fb))


class Lockstep(TorchDispatchMode):
    def __torch_dispatch__(self, func, types, args=(), kwargs=None):
        kwargs = kwargs or {}
        handled = func in ops.PURE or func in ops.SPECIAL or ops._inplace_base(func) is not None
        ts = _tensors(list(args) + list(kwargs.values()), [])
        skip = (not handled or func in ops.RANDOM or not ts or any(t.numel() > MAX_NUMEL or t.is_complex() or t.device.type != "cpu" or t.is_sparse for t in ts)
                or func in (torch.ops.aten._local_scalar_dense.default, torch.ops.aten.nonzero.default, torch.ops.aten.equal.default, torch.ops.aten.masked_select.default))
        if skip:
            return func(*args, **kwargs)
        # clone the inputs for the handler (in-place ops mutate their arguments)
        memo = {}

        def clone(x):
            if isinstance(x, torch.Tensor):
                k = id(x)
                if k not in memo:
                    with raw():
                        c = torch.empty_strided(x.shape, x.stride(), dtype=x.dtype)
                        c.copy_(x.detach())
                    memo[k] = c
                return memo[k]
            if isinstance(x, (list, tuple)):
                return type(x)(clone(i) for i in x)
            return x
        try:
            cargs, ckw = clone(args), {k: clone(v) for k, v in kwargs.items()}
        except Exception:
            return func(*args, **kwargs)
        real = func(*args, **kwargs)
        name = str(func)
        st = STATS.setdefault(name, {"calls": 0, "mismatch": 0, "errors": 0})
        eng = Engine((), {"div_policy": "xr"})
        try:
            T.DIV_POLICY[0] = "xr"
            T.FINITE_HOOK[0] = None
            for c in memo.values():
                eng.write(c, tensor_to_obj(c))
            with raw():
                got = ops.dispatch(eng, func, cargs, ckw)
            outs_r = real if isinstance(real, (tuple, list)) else [real]
            outs_g = got if isinstance(got, (tuple, list)) else [got]
            st["calls"] += 1
            for r, g in zip(outs_r, outs_g):
                if not isinstance(r, torch.Tensor):
                    continue
                if tuple(r.shape) != tuple(g.shape) or r.dtype != g.dtype:
                    st["mismatch"] += 1
                    MISMATCH.append({"op": name, "why": f"shape/dtype {tuple(g.shape)},{g.dtype} vs {tuple(r.shape)},{r.dtype}"})
                    continue
                ga = eng.read(g).reshape(-1)
                with raw():
                    ra = r.detach().reshape(-1).tolist()
                isf = r.dtype.is_floating_point
                for a, b in zip(ga, ra):
                    if not _same(_conc(a), b, isf):
                        st["mismatch"] += 1
                        if len(MISMATCH) < 50:
                            MISMATCH.append({"op": name, "handler": str(_conc(a)), "kernel": b})
                        break
        except T.Unsupported:
            st["errors"] += 0
        except Exception as ex:
            st["errors"] += 1
            if len(MISMATCH) < 50:
                MISMATCH.append({"op": name, "error": repr(ex)[:200]})
        finally:
            T.DIV_HOOK[0] = None
        return real


@pytest.hookimpl(hookwrapper=True)
def pytest_runtest_call(item):
    with Lockstep():
        yield


def pytest_sessionfinish(session, exitstatus):
    out = os.environ.get("LOCKSTEP_OUT")
    if out:
        with open(out, "w") as f:
            json.dump({"overloads": len(STATS), "calls": sum(s["calls"] for s in STATS.values()), "mismatches": sum(s["mismatch"] for s in STATS.values()),
                       "handler_errors": sum(s["errors"] for s in STATS.values()), "int64_wraparound_elements_outside_claim": WRAPS[0], "per_op": STATS, "examples": MISMATCH[:50]}, f, indent=1)
