"""Element algebra of the symbolic shadow.

An *element* is the value of one tensor slot (or one Python scalar):

  concrete   bool | int | Fraction            (exact)
  symbolic   z3 BoolRef | z3 ArithRef (Int or Real sort)
  Ind(p)     a boolean whose numeric value p is a {0,1}-valued Real term
             ("indicator mode" for spike trains: logic becomes polynomial arithmetic)
  XR(..)     an IEEE float that may be NaN / +inf / -inf: three flags + a finite value

Every operator of the engine is defined here, once, for all representations.  All
functions are total on the representations above or raise Unsupported (fail closed).
"""
from __future__ import annotations
import math
from fractions import Fraction
import z3

from . import fp as _fp


class Unsupported(Exception):
    """The engine cannot model this soundly; the run is inconclusive (never a pass)."""


# --------------------------------------------------------------------------- basics
class Ind:
    __slots__ = ("p",)

    def __init__(self, p):
        self.p = p

    def __repr__(self):
        return f"Ind({self.p})"


class XR:
    __slots__ = ("nan", "pinf", "ninf", "val")

    def __init__(self, nan, pinf, ninf, val):
        self.nan, self.pinf, self.ninf, self.val = nan, pinf, ninf, val

    def __repr__(self):
        return f"XR(nan={self.nan},+inf={self.pinf},-inf={self.ninf},val={self.val})"


_IND_IDS: set[int] = set()  # z3 ast ids of Real terms known to be {0,1}-valued


def reset_state():
    _IND_IDS.clear()


def is_z(x):
    return isinstance(x, z3.ExprRef)


def is_sym(x):
    """True if the element is not a plain concrete value."""
    return isinstance(x, (z3.ExprRef, Ind, XR, _fp.FP))


def _anyfp(*xs):
    return any(isinstance(x, _fp.FP) for x in xs)


def mark_ind(p):
    if is_z(p):
        _IND_IDS.add(p.get_id())
    return p


def is_ind_term(p):
    return is_z(p) and p.get_id() in _IND_IDS


def mk_ind(p):
    """Indicator element from a {0,1}-valued numeric p (normalises constants)."""
    if not is_z(p):
        return bool(p)
    return Ind(mark_ind(p))


def num(x):
    """Normalise a concrete Python value to bool / int / Fraction / XR constant."""
    if isinstance(x, (bool, int, Fraction)) or is_sym(x):
        return x
    if isinstance(x, float):
        if math.isnan(x):
            return XR(True, False, False, 0)
        if math.isinf(x):
            return XR(False, x > 0, x < 0, 0)
        return Fraction(x)
    if hasattr(x, "__index__"):
        return int(x)
    if hasattr(x, "__float__"):
        return num(float(x))
    raise Unsupported(f"cannot use {type(x).__name__} as an element")


def _numeral(v):
    if z3.is_int_value(v):
        return v.as_long()
    if z3.is_rational_value(v):
        f = v.as_fraction()
        return Fraction(f.numerator, f.denominator)
    return None


def _is_real(x):
    return isinstance(x, Fraction) or (is_z(x) and z3.is_real(x))


def rv(x):
    """z3 Real numeral / term from a finite numeric element."""
    if is_z(x):
        if z3.is_real(x):
            return x
        if z3.is_int(x):
            if z3.is_app_of(x, z3.Z3_OP_ITE):
                c, p, q = x.children()
                pn, qn = _numeral(p), _numeral(q)
                if pn is not None and qn is not None:
                    return z3.If(c, z3.RealVal(pn), z3.RealVal(qn))
            n = _numeral(x)
            if n is not None:
                return z3.RealVal(n)
            return z3.ToReal(x)
        if z3.is_bool(x):
            return z3.If(x, z3.RealVal(1), z3.RealVal(0))
        raise Unsupported(f"sort {x.sort()}")
    if isinstance(x, bool):
        return z3.RealVal(int(x))
    if isinstance(x, int):
        return z3.RealVal(x)
    if isinstance(x, Fraction):
        return z3.RealVal(x)
    raise Unsupported(f"rv({type(x).__name__})")


def iv(x):
    if is_z(x):
        if z3.is_int(x):
            return x
        if z3.is_bool(x):
            return z3.If(x, z3.IntVal(1), z3.IntVal(0))
        raise Unsupported("real term used as integer")
    return z3.IntVal(int(x))


def bv(x):
    """z3 Bool from a boolean element."""
    if isinstance(x, Ind):
        return rv(x.p) == 1
    if is_z(x):
        if z3.is_bool(x):
            return x
        return x != 0
    if isinstance(x, XR):
        return tob(x)
    return z3.BoolVal(bool(x))


def as_num(a):
    """Numeric view of a non-XR element: bools become 0/1."""
    if isinstance(a, Ind):
        return a.p
    if is_z(a):
        if z3.is_bool(a):
            return z3.If(a, z3.IntVal(1), z3.IntVal(0))
        return a
    if isinstance(a, bool):
        return int(a)
    return a


def tob(v):
    """Boolean view (x != 0) usable as a branch condition: Python bool or z3 Bool."""
    if isinstance(v, _fp.FP):
        return _fp.tob(v)
    if isinstance(v, Ind):
        return rv(v.p) == 1
    if isinstance(v, XR):
        return bor(bor(v.nan, bor(v.pinf, v.ninf)), tob(ne(v.val, 0)))
    if is_z(v):
        if z3.is_bool(v):
            return v
        return v != 0
    return bool(v)


def as_bool_elem(v):
    """Boolean *element* view (keeps indicators)."""
    if isinstance(v, Ind) or isinstance(v, bool):
        return v
    if is_z(v) and z3.is_bool(v):
        return v
    if is_ind_term(v):
        return Ind(v)
    return tob(v)


# ------------------------------------------------------------------ boolean helpers
def bnot(a):
    if isinstance(a, Ind):
        return mk_ind(sub(1, a.p))
    if is_z(a):
        if z3.is_not(a):
            return a.arg(0)
        return z3.Not(a)
    return not a


def band(a, b):
    if isinstance(a, Ind) or isinstance(b, Ind):
        if isinstance(a, Ind) and isinstance(b, Ind):
            return mk_ind(mul(a.p, b.p))
        o = b if isinstance(a, Ind) else a
        i = a if isinstance(a, Ind) else b
        if not is_z(o):
            return i if o else False
        return z3.And(bv(i), o)
    if not is_z(a):
        return b if a else False
    if not is_z(b):
        return a if b else False
    return z3.And(a, b)


def bor(a, b):
    if isinstance(a, Ind) or isinstance(b, Ind):
        if isinstance(a, Ind) and isinstance(b, Ind):
            return mk_ind(sub(add(a.p, b.p), mul(a.p, b.p)))
        o = b if isinstance(a, Ind) else a
        i = a if isinstance(a, Ind) else b
        if not is_z(o):
            return True if o else i
        return z3.Or(bv(i), o)
    if not is_z(a):
        return True if a else b
    if not is_z(b):
        return True if b else a
    return z3.Or(a, b)


def bxor(a, b):
    return bor(band(a, bnot(b)), band(bnot(a), b))


def land(a, b):
    return band(as_bool_elem(a), as_bool_elem(b))


def lor(a, b):
    return bor(as_bool_elem(a), as_bool_elem(b))


def lxor(a, b):
    return bxor(as_bool_elem(a), as_bool_elem(b))


def lnot(a):
    return bnot(as_bool_elem(a))


def bite(c, a, b):
    """if-then-else on boolean flags (Python bool | z3 Bool)."""
    if not is_z(c):
        return a if c else b
    if not is_z(a) and not is_z(b):
        if a == b:
            return a
        return c if a else z3.Not(c)
    return z3.If(c, bv(a), bv(b))


# ------------------------------------------------------------------- XR helpers
def split(x):
    if isinstance(x, XR):
        return x.nan, x.pinf, x.ninf, x.val
    return False, False, False, as_num(x)


def mkx(nan, pinf, ninf, val):
    if not is_z(nan) and not is_z(pinf) and not is_z(ninf) and not (nan or pinf or ninf):
        return val
    return XR(nan, pinf, ninf, val)


def _anyx(*xs):
    return any(isinstance(x, XR) for x in xs)


def isnan(x):
    if isinstance(x, _fp.FP):
        return _fp.isnan(x)
    return x.nan if isinstance(x, XR) else False


def isinf(x):
    if isinstance(x, _fp.FP):
        return _fp.isinf(x)
    return bor(x.pinf, x.ninf) if isinstance(x, XR) else False


def isfinite(x):
    return bnot(bor(isnan(x), isinf(x)))


# ------------------------------------------------------------------- arithmetic core
def _co(a, b):
    """Coerce a pair of finite numeric elements for a z3 operation."""
    if _is_real(a) or _is_real(b):
        return rv(a), rv(b)
    return iv(a), iv(b)


def _add(a, b):
    if not is_z(a) and not is_z(b):
        return a + b
    if not is_z(a) and a == 0:
        return b
    if not is_z(b) and b == 0:
        return a
    x, y = _co(a, b)
    return x + y


def _sub(a, b):
    if not is_z(a) and not is_z(b):
        return a - b
    if not is_z(b) and b == 0:
        return a
    x, y = _co(a, b)
    return x - y


def _mul(a, b):
    if not is_z(a) and not is_z(b):
        return a * b
    for x, y in ((a, b), (b, a)):
        if not is_z(y):
            if y == 0:
                return Fraction(0) if _is_real(x) or isinstance(y, Fraction) else 0
            if y == 1:
                return rv(x) if isinstance(y, Fraction) else x
    # distribute over an ite with numeral branches: keeps bool*real products linear
    for x, y in ((a, b), (b, a)):
        if is_z(x) and z3.is_app_of(x, z3.Z3_OP_ITE):
            c, p, q = x.children()
            pn, qn = _numeral(p), _numeral(q)
            if pn is not None and qn is not None:
                if z3.is_real(x):
                    pn, qn = Fraction(pn), Fraction(qn)
                return _ite(c, _mul(pn, y), _mul(qn, y))
    x, y = _co(a, b)
    return x * y


def _div(a, b):
    if not is_z(a) and not is_z(b):
        return Fraction(a) / Fraction(b)
    if not is_z(b):
        return _mul(a, 1 / Fraction(b))
    return rv(a) / rv(b)


def _neg(a):
    if not is_z(a):
        return -a
    return -a


def _ite(c, a, b):
    """c: Python bool | z3 Bool; a, b: finite numeric or boolean elements (no Ind/XR)."""
    if not is_z(c):
        return a if c else b
    if not is_z(a) and not is_z(b) and a == b and type(a) is type(b):
        return a
    a_bool = isinstance(a, bool) or (is_z(a) and z3.is_bool(a))
    b_bool = isinstance(b, bool) or (is_z(b) and z3.is_bool(b))
    if a_bool and b_bool:
        return bite(c, a, b)
    a, b = as_num(a), as_num(b)
    x, y = _co(a, b)
    if x.eq(y):
        return x
    return z3.If(c, x, y)


def _cmp(op, a, b):
    a, b = as_num(a), as_num(b)
    if not is_z(a) and not is_z(b):
        return bool(op(a, b))
    # comparison of an ite-with-numeral-branches against a constant folds to the guard
    for x, y, flip in ((a, b, False), (b, a, True)):
        if is_z(x) and not is_z(y) and z3.is_app_of(x, z3.Z3_OP_ITE):
            c, p, q = x.children()
            pn, qn = _numeral(p), _numeral(q)
            if pn is not None and qn is not None:
                rp = bool(op(y, pn)) if flip else bool(op(pn, y))
                rq = bool(op(y, qn)) if flip else bool(op(qn, y))
                if rp and rq:
                    return True
                if not rp and not rq:
                    return False
                return c if rp else bnot(c)
    x, y = _co(a, b)
    return op(x, y)


# ------------------------------------------------------------- public arithmetic
def add(a, b):
    if _anyfp(a, b):
        return _fp.add(a, b)
    if _anyx(a, b):
        an, ap, am, av = split(a)
        bn, bp, bm, bvv = split(b)
        nan = bor(bor(an, bn), bor(band(ap, bm), band(am, bp)))
        nn = bnot(nan)
        return mkx(nan, band(nn, bor(ap, bp)), band(nn, bor(am, bm)), _add(av, bvv))
    return _add(as_num(a), as_num(b))


def neg(a):
    if isinstance(a, _fp.FP):
        return _fp.neg(a)
    if isinstance(a, XR):
        return XR(a.nan, a.ninf, a.pinf, _neg(a.val))
    return _neg(as_num(a))


def sub(a, b):
    if _anyfp(a, b):
        return _fp.sub(a, b)
    if _anyx(a, b):
        return add(a, neg(b))
    return _sub(as_num(a), as_num(b))


def _sign_flags(x):
    n, p, m, v = split(x)
    fin = bnot(bor(n, bor(p, m)))
    pos = bor(p, band(fin, _cmp(lambda s, t: s > t, v, 0)))
    negf = bor(m, band(fin, _cmp(lambda s, t: s < t, v, 0)))
    zero = band(fin, _cmp(lambda s, t: s == t, v, 0))
    return n, bor(p, m), pos, negf, zero, v


def mul(a, b):
    if _anyfp(a, b):
        return _fp.mul(a, b)
    if _anyx(a, b):
        an, ainf, apos, aneg, azero, av = _sign_flags(a)
        bn, binf, bpos, bneg, bzero, bvv = _sign_flags(b)
        nan = bor(bor(an, bn), bor(band(ainf, bzero), band(binf, azero)))
        anyinf = band(bnot(nan), bor(ainf, binf))
        pinf = band(anyinf, bor(band(apos, bpos), band(aneg, bneg)))
        ninf = band(anyinf, bor(band(apos, bneg), band(aneg, bpos)))
        return mkx(nan, pinf, ninf, _mul(av, bvv))
    return _mul(as_num(a), as_num(b))


# division policy for a possibly-zero symbolic divisor:
#   "assume" : record the side condition b != 0 as an assumption of the path (reported)
#   "xr"     : produce IEEE specials (inf / nan)
DIV_POLICY = ["assume"]
DIV_HOOK = [None]  # engine installs a callable(term_b) to receive side conditions


def div(a, b):
    if _anyfp(a, b):
        return _fp.div(a, b)
    if _anyx(a, b) or (DIV_POLICY[0] == "xr" and is_z(as_num(b))) or (not is_sym(b) and as_num(b) == 0):
        an, ainf, apos, aneg, azero, av = _sign_flags(a)
        bn, binf, bpos, bneg, bzero, bvv = _sign_flags(b)
        afin, bfin = bnot(bor(an, ainf)), bnot(bor(bn, binf))
        nan = bor(bor(an, bn), bor(band(ainf, binf), band(azero, bzero)))
        toinf = band(bnot(nan), bor(ainf, band(bzero, bnot(azero))))
        # sign of the divisor when it is zero is taken as +0 (the library never builds -0 divisors)
        bposz = bor(bpos, bzero)
        pinf = band(toinf, bor(band(apos, bposz), band(aneg, bneg)))
        ninf = band(toinf, bor(band(apos, bneg), band(aneg, bposz)))
        safe_b = ite(bor(bzero, binf), 1, bvv)      # (the value slot of an infinite divisor is 0: never divide by it)
        val = ite(binf, 0, _div(av, safe_b))
        return mkx(nan, pinf, ninf, val)
    a, b = as_num(a), as_num(b)
    if is_z(b) and DIV_HOOK[0] is not None:
        DIV_HOOK[0](b)
    return _div(a, b)


def lt(a, b):
    if _anyfp(a, b):
        return _fp.lt(a, b)
    if _anyx(a, b):
        an, ap, am, av = split(a)
        bn, bp, bm, bvv = split(b)
        afin, bfin = bnot(bor(an, bor(ap, am))), bnot(bor(bn, bor(bp, bm)))
        ok = bnot(bor(an, bn))
        r = bor(bor(band(am, bnot(bm)), band(bp, bnot(ap))), band(band(afin, bfin), _cmp(lambda s, t: s < t, av, bvv)))
        return band(ok, r)
    return _cmp(lambda s, t: s < t, a, b)


def gt(a, b):
    return lt(b, a)


def le(a, b):
    if _anyfp(a, b):
        return _fp.le(a, b)
    if _anyx(a, b):
        return bor(lt(a, b), eq(a, b))
    return _cmp(lambda s, t: s <= t, a, b)


def ge(a, b):
    return le(b, a)


def eq(a, b):
    if _anyfp(a, b):
        return _fp.eq(a, b)
    if _anyx(a, b):
        an, ap, am, av = split(a)
        bn, bp, bm, bvv = split(b)
        afin, bfin = bnot(bor(an, bor(ap, am))), bnot(bor(bn, bor(bp, bm)))
        ok = bnot(bor(an, bn))
        r = bor(bor(band(ap, bp), band(am, bm)), band(band(afin, bfin), _cmp(lambda s, t: s == t, av, bvv)))
        return band(ok, r)
    # indicator == 0/1 stays an indicator
    for x, y in ((a, b), (b, a)):
        p = x.p if isinstance(x, Ind) else (x if is_ind_term(x) else None)
        if p is not None and not is_sym(y):
            yv = int(y) if isinstance(y, bool) else y
            if yv == 1:
                return mk_ind(p)
            if yv == 0:
                return mk_ind(_sub(1, p))
            return False
    a_b = isinstance(a, bool) or (is_z(a) and z3.is_bool(a))
    b_b = isinstance(b, bool) or (is_z(b) and z3.is_bool(b))
    if a_b and b_b:
        if not is_z(a):
            return b if a else bnot(b)
        if not is_z(b):
            return a if b else bnot(a)
        return a == b
    return _cmp(lambda s, t: s == t, a, b)


def ne(a, b):
    return bnot(eq(a, b))


def ite(c, a, b):
    """General if-then-else; c is a boolean element."""
    if _anyfp(a, b):
        return _fp.ite(tob(c), a, b)
    if isinstance(c, Ind):
        if _anyx(a, b):
            return ite(bv(c), a, b)
        a_bl = isinstance(a, (Ind, bool)) or (is_z(a) and z3.is_bool(a))
        b_bl = isinstance(b, (Ind, bool)) or (is_z(b) and z3.is_bool(b))
        if a_bl and b_bl:
            if (isinstance(a, (Ind, bool))) and (isinstance(b, (Ind, bool))):
                pa, pb = as_num(a), as_num(b)
                return mk_ind(_add(_mul(c.p, pa), _mul(_sub(1, c.p), pb)))
            return _ite(bv(c), tob(a), tob(b))
        an, bn = as_num(a), as_num(b)
        return _add(_mul(c.p, an), _mul(_sub(1, c.p), bn))
    c = tob(c)
    if not is_z(c):
        return a if c else b
    if _anyx(a, b):
        an, ap, am, av = split(a)
        bn, bp, bm, bvv = split(b)
        return mkx(bite(c, an, bn), bite(c, ap, bp), bite(c, am, bm), _ite(c, av, bvv))
    if isinstance(a, Ind) or isinstance(b, Ind):
        a_bl = isinstance(a, (Ind, bool)) or (is_z(a) and z3.is_bool(a))
        b_bl = isinstance(b, (Ind, bool)) or (is_z(b) and z3.is_bool(b))
        if a_bl and b_bl:
            return _ite(c, tob(a), tob(b))
        return _ite(c, as_num(a), as_num(b))
    return _ite(c, a, b)


def lift1(core, name):
    def f(a):
        if isinstance(a, _fp.FP):
            return _fp.round_int(a, name.rstrip("_"))
        if isinstance(a, XR):
            return XR(a.nan, a.pinf, a.ninf, core(a.val))
        return core(as_num(a))
    f.__name__ = name
    return f


def _floor(a):
    if not is_z(a):
        return type(a)(math.floor(a)) if isinstance(a, Fraction) else a
    if z3.is_int(a):
        return a
    return z3.ToReal(z3.ToInt(a))


def _ceil(a):
    if not is_z(a):
        return type(a)(math.ceil(a)) if isinstance(a, Fraction) else a
    if z3.is_int(a):
        return a
    return -z3.ToReal(z3.ToInt(-a))


def _round(a):
    """round half to even (torch.round, Python round)"""
    if not is_z(a):
        return Fraction(round(a)) if isinstance(a, Fraction) else a
    if z3.is_int(a):
        return a
    f = z3.ToInt(a)
    fr = a - z3.ToReal(f)
    half = z3.RealVal(Fraction(1, 2))
    r = z3.If(fr < half, f, z3.If(fr > half, f + 1, z3.If(f % 2 == 0, f, f + 1)))
    return z3.ToReal(r)


def _trunc(a):
    if not is_z(a):
        return Fraction(math.trunc(a)) if isinstance(a, Fraction) else a
    if z3.is_int(a):
        return a
    return z3.If(a >= 0, z3.ToReal(z3.ToInt(a)), -z3.ToReal(z3.ToInt(-a)))


def _abs(a):
    if not is_z(a):
        return abs(a)
    return z3.If(a >= 0, a, -a)


floor_ = lift1(_floor, "floor_")
ceil_ = lift1(_ceil, "ceil_")
round_ = lift1(_round, "round_")
trunc_ = lift1(_trunc, "trunc_")


def abs_(a):
    if isinstance(a, _fp.FP):
        return _fp.abs_(a)
    if isinstance(a, XR):
        return XR(a.nan, bor(a.pinf, a.ninf), False, _abs(a.val))
    return _abs(as_num(a))


def sign_(a):
    if isinstance(a, _fp.FP):
        return _fp.sign(a)
    if isinstance(a, XR):
        raise Unsupported("sign of non-finite")
    a = as_num(a)
    if not is_z(a):
        return type(a)((a > 0) - (a < 0))
    one, zero = (z3.RealVal(1), z3.RealVal(0)) if z3.is_real(a) else (z3.IntVal(1), z3.IntVal(0))
    return z3.If(a > 0, one, z3.If(a < 0, -one, zero))


FINITE_HOOK = [None]   # engine installs callable(flag_term) -> True when the flag is provably false on this path


def to_int(a):
    """float -> int conversion (truncation toward zero); int stays."""
    if isinstance(a, _fp.FP):
        if _fp.is_const(a):
            return math.trunc(_fp.to_float(a))
        raise Unsupported("conversion of a symbolic float32 element to an integer")
    if isinstance(a, XR):
        flags = bor(a.nan, bor(a.pinf, a.ninf))
        if is_z(flags) and FINITE_HOOK[0] is not None and FINITE_HOOK[0](flags):
            a = a.val
        elif not is_z(flags) and not flags:
            a = a.val
        else:
            raise Unsupported("conversion of a possibly non-finite value to an integer")
    a = as_num(a)
    if not is_z(a):
        return int(a) if not isinstance(a, Fraction) else math.trunc(a)
    if z3.is_int(a):
        return a
    return z3.If(a >= 0, z3.ToInt(a), -z3.ToInt(-a))


def to_real(a):
    if isinstance(a, (XR, _fp.FP)):
        return a
    a = as_num(a)
    if not is_z(a):
        return Fraction(a)
    return rv(a)


def remainder(a, b):
    """Python / torch.remainder: result has the sign of the divisor."""
    if _anyfp(a, b):
        raise Unsupported("remainder of float32 elements (bit-exact mode)")
    if _anyx(a, b):
        raise Unsupported("remainder of non-finite")
    a, b = as_num(a), as_num(b)
    if not is_z(a) and not is_z(b):
        return a % b
    if not _is_real(a) and not _is_real(b):
        if is_z(b) or b <= 0:
            raise Unsupported("integer remainder by a symbolic or non-positive divisor")
        return iv(a) % b
    q = _div(a, b)
    return _sub(to_real(a), _mul(b, _floor(q)))


def floordiv(a, b):
    if _anyfp(a, b):
        raise Unsupported("floor_divide of float32 elements (bit-exact mode)")
    if _anyx(a, b):
        raise Unsupported("floor_divide of non-finite")
    a, b = as_num(a), as_num(b)
    if not is_z(a) and not is_z(b):
        return a // b
    if not _is_real(a) and not _is_real(b):
        if is_z(b) or b <= 0:
            raise Unsupported("integer floor division by a symbolic or non-positive divisor")
        return iv(a) / b
    return _floor(_div(a, b))


def minimum(a, b):
    if _anyfp(a, b):
        return _fp.minimum(a, b)
    if _anyx(a, b):
        an, bn = isnan(a), isnan(b)
        r = ite(lt(b, a), b, a)
        r = ite(bn, b, r)
        return ite(an, a, r)
    a, b = as_num(a), as_num(b)
    return ite(_cmp(lambda s, t: s < t, b, a), b, a)


def maximum(a, b):
    if _anyfp(a, b):
        return _fp.maximum(a, b)
    if _anyx(a, b):
        an, bn = isnan(a), isnan(b)
        r = ite(lt(a, b), b, a)
        r = ite(bn, b, r)
        return ite(an, a, r)
    a, b = as_num(a), as_num(b)
    return ite(_cmp(lambda s, t: s > t, b, a), b, a)


def clamp(v, lo, hi):
    if _anyfp(v, lo, hi):
        if lo is not None:
            v = _fp.maximum(v, lo)
        if hi is not None:
            v = _fp.minimum(v, hi)
        return v
    if lo is not None:
        v = maximum(v, lo) if not isinstance(v, XR) else ite(isnan(v), v, maximum(v, lo))
    if hi is not None:
        v = minimum(v, hi) if not isinstance(v, XR) else ite(isnan(v), v, minimum(v, hi))
    return v


# ------------------------------------------------------------ transcendental functions
R = z3.RealSort()
UF = {
    "exp": z3.Function("exp_", R, R),
    "log": z3.Function("log_", R, R),
    "sqrt": z3.Function("sqrt_", R, R),
    "pow": z3.Function("pow_", R, R, R),
    "gammaincc": z3.Function("gammaincc_", R, R, R),
    "lgamma": z3.Function("lgamma_", R, R),
    "erf": z3.Function("erf_", R, R),
    "sin": z3.Function("sin_", R, R),
    "cos": z3.Function("cos_", R, R),
    "tanh": z3.Function("tanh_", R, R),
    "log1p": z3.Function("log1p_", R, R),
    "expm1": z3.Function("expm1_", R, R),
    "sigmoid": z3.Function("sigmoid_", R, R),
}
_PYF = {
    "exp": math.exp, "log": math.log, "sqrt": math.sqrt, "lgamma": math.lgamma, "erf": math.erf,
    "sin": math.sin, "cos": math.cos, "tanh": math.tanh, "log1p": math.log1p, "expm1": math.expm1,
    "sigmoid": lambda x: 1 / (1 + math.exp(-x)),
}


def _uf1(name, exact=None):
    def f(a):
        if isinstance(a, _fp.FP):
            return _fp.uf1(name, a)
        if isinstance(a, XR):
            if name == "exp":
                return mkx(a.nan, a.pinf, False, ite(a.ninf, 0, f(a.val)))
            raise Unsupported(f"{name} of a possibly non-finite value")
        a = as_num(a)
        if not is_z(a):
            if exact is not None and a in exact:
                return Fraction(exact[a])
            try:
                return Fraction(_PYF[name](float(a)))
            except (ValueError, OverflowError):
                return num(getattr(__import__("numpy"), name)(float(a)).item()) if name in ("log", "sqrt") else num(float("inf"))
        return UF[name](rv(a))
    f.__name__ = name + "_"
    return f


exp_ = _uf1("exp", {0: 1})
log_ = _uf1("log", {1: 0})
sqrt_ = _uf1("sqrt", {0: 0, 1: 1})
lgamma_ = _uf1("lgamma", {1: 0, 2: 0})
erf_ = _uf1("erf", {0: 0})
sin_ = _uf1("sin", {0: 0})
cos_ = _uf1("cos", {0: 1})
tanh_ = _uf1("tanh", {0: 0})
log1p_ = _uf1("log1p", {0: 0})
expm1_ = _uf1("expm1", {0: 0})
sigmoid_ = _uf1("sigmoid")


def pow_(a, b):
    if _anyfp(a, b):
        if not is_sym(b) and Fraction(b).denominator == 1 and 0 <= Fraction(b) <= 4:
            r = _fp.val(1.0)
            for _ in range(int(b)):
                r = _fp.mul(r, a)
            return r
        raise Unsupported("pow of float32 elements with a non-small-integer exponent (bit-exact mode)")
    if _anyx(a, b):
        raise Unsupported("pow of a possibly non-finite value")
    a, b = as_num(a), as_num(b)
    if not is_z(b):
        bb = Fraction(b)
        if bb.denominator == 1 and abs(bb.numerator) <= 8:
            n = bb.numerator
            r = 1 if not _is_real(a) and not isinstance(b, Fraction) else Fraction(1)
            for _ in range(abs(n)):
                r = _mul(r, a)
            return r if n >= 0 else _div(1, r)
        if not is_z(a):
            return Fraction(float(a) ** float(b))
        if bb == Fraction(1, 2):
            return sqrt_(a)
    elif not is_z(a):
        pass
    return UF["pow"](rv(a), rv(b))


def gammaincc_(a, x):
    if _anyfp(a, x):
        raise Unsupported("gammaincc of float32 elements (bit-exact mode)")
    if _anyx(a, x):
        raise Unsupported("gammaincc of a possibly non-finite value")
    a, x = as_num(a), as_num(x)
    if not is_z(a) and not is_z(x):
        import torch
        return Fraction(float(torch.special.gammaincc(torch.tensor(float(a), dtype=torch.float64), torch.tensor(float(x), dtype=torch.float64))))
    return UF["gammaincc"](rv(a), rv(x))


# ------------------------------------------------------------------- dtype casts
def kind_of(dtype):
    import torch
    if dtype == torch.bool:
        return "b"
    if dtype.is_floating_point:
        return "f"
    if dtype.is_complex:
        raise Unsupported("complex dtypes are not modelled")
    return "i"


def cast_kind(x, ks, kd):
    if isinstance(x, _fp.FP):
        if kd == "b":
            return tob(x)
        if kd == "i":
            return to_int(x)
        return x
    if kd == "b":
        if isinstance(x, (Ind, bool)) or (is_z(x) and z3.is_bool(x)):
            return x
        if is_ind_term(x):
            return Ind(x)
        return tob(x)
    if ks == "b" or isinstance(x, (Ind, bool)) or (is_z(x) and z3.is_bool(x)):
        if isinstance(x, Ind):
            return x.p if kd == "f" else to_int_ind(x)
        v = as_num(x)
        return to_real(v) if kd == "f" else v
    if kd == "i":
        return to_int(x)
    return to_real(x)


def to_int_ind(x):
    # an indicator used as an integer: ToInt of a {0,1} real
    return z3.If(rv(x.p) == 1, z3.IntVal(1), z3.IntVal(0))


def cast(x, src, dst):
    return cast_kind(x, kind_of(src), kind_of(dst))


def fix_kind(x, k):
    """Make element x well-typed for a tensor of kind k (after a generic handler)."""
    if k == "b":
        return cast_kind(x, "?", "b")
    if k == "f":
        if isinstance(x, (XR, _fp.FP)):
            return x
        if isinstance(x, (Ind, bool)) or (is_z(x) and z3.is_bool(x)):
            return cast_kind(x, "b", "f")
        return to_real(x)
    if isinstance(x, _fp.FP):
        raise Unsupported("float32 element in an integer tensor without an explicit cast")
    if isinstance(x, XR):
        raise Unsupported("non-finite value in an integer tensor")
    if isinstance(x, (Ind, bool)) or (is_z(x) and z3.is_bool(x)):
        return cast_kind(x, "b", "i")
    if _is_real(x):
        raise Unsupported("real value in integer tensor without an explicit cast")
    return x


# ------------------------------------------------------------------- equality obligations
def same(a, b):
    """Obligation 'elements are equal' where NaN equals NaN (for comparing states)."""
    if _anyfp(a, b):
        return _fp.same(a, b)
    if _anyx(a, b):
        an, ap, am, av = split(a)
        bn, bp, bm, bvv = split(b)
        afin, bfin = bnot(bor(an, bor(ap, am))), bnot(bor(bn, bor(bp, bm)))
        flags = band(band(eq(an, bn), eq(ap, bp)), eq(am, bm))
        return band(flags, bor(bnot(afin), _cmp(lambda s, t: s == t, av, bvv)))
    a_bl = isinstance(a, (Ind, bool)) or (is_z(a) and z3.is_bool(a))
    b_bl = isinstance(b, (Ind, bool)) or (is_z(b) and z3.is_bool(b))
    if a_bl and b_bl:
        if isinstance(a, Ind) and isinstance(b, Ind):
            return _cmp(lambda s, t: s == t, a.p, b.p)
        return tob(eq(tob(a), tob(b)))
    if a_bl != b_bl:
        # numeric vs boolean: compare numerically
        return _cmp(lambda s, t: s == t, as_num(a), as_num(b))
    return _cmp(lambda s, t: s == t, a, b)


def z3_of(x):
    """A z3 term for a finite element (used in models / printing)."""
    if isinstance(x, Ind):
        return rv(x.p)
    if isinstance(x, _fp.FP):
        return x.t
    if isinstance(x, XR):
        raise Unsupported("z3_of(XR)")
    if is_z(x):
        return x
    if isinstance(x, bool):
        return z3.BoolVal(x)
    if isinstance(x, int):
        return z3.IntVal(x)
    return z3.RealVal(x)
